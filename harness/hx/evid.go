package hx

// evid.go: run configuration (tier / seed / shard from the environment), the evidence collector
// and the rapid runner that records a replayable trace for every failing execution.

import (
	"encoding/json"
	"flag"
	"fmt"
	"hash/fnv"
	"os"
	"path/filepath"
	"runtime/debug"
	"sort"
	"strconv"
	"strings"
	"sync"
	"testing"
	"time"

	"pgregory.net/rapid"
)

func envInt(name string, def int64) int64 {
	v := os.Getenv(name)
	if v == "" {
		return def
	}
	n, err := strconv.ParseInt(v, 0, 64)
	if err != nil {
		return def
	}
	return n
}

// Tier is "quick" or "thorough".
func Tier() string {
	if os.Getenv("VERIF_TIER") == "thorough" {
		return "thorough"
	}
	return "quick"
}

// Seed is VERIF_SEED (default 1).
func Seed() int64 { return envInt("VERIF_SEED", 1) }

// Shard / Shards: which slice of a sharded (thorough) run this process is.
func Shard() int  { return int(envInt("VERIF_SHARD", 0)) }
func Shards() int { return int(envInt("VERIF_SHARDS", 1)) }

// OutDir is where evidence fragments and replay files of this process go.
func OutDir() string {
	d := os.Getenv("VERIF_OUT")
	if d == "" {
		d = filepath.Join(os.TempDir(), "verif-out")
	}
	os.MkdirAll(d, 0755)
	return d
}

// VerifRoot is /verif (for known_findings.json and committed replays).
func VerifRoot() string {
	d := os.Getenv("VERIF_ROOT")
	if d == "" {
		d = "/verif"
	}
	return d
}

// N picks the per-process case count for the tier; VERIF_SCALE (percent) rescales it.
func N(quick, thorough int) int {
	n := quick
	if Tier() == "thorough" {
		n = thorough
	}
	sc := envInt("VERIF_SCALE", 100)
	n = int(int64(n) * sc / 100)
	if n < 1 {
		n = 1
	}
	return n
}

// rapidSeed derives a non-zero rapid seed from (VERIF_SEED, shard, name).
func rapidSeed(name string) uint64 {
	h := fnv.New64a()
	fmt.Fprintf(h, "%d/%d/%s", Seed(), Shard(), name)
	s := h.Sum64()
	if s == 0 {
		s = 0x9e3779b97f4a7c15
	}
	return s
}

// Violation is one failed oracle.
type Violation struct {
	Test    string `json:"test"`
	Message string `json:"message"`
	Replay  string `json:"replay"`
}

// Collector accumulates the evidence of one property in one process.
type Collector struct {
	mu          sync.Mutex
	Prop        string
	Level       string
	Rule        string
	Assumptions []string
	start       time.Time

	evaluations int
	nontrivial  map[uint64]struct{}
	labels      map[string]int
	samples     []interface{}
	excluded    map[string]int
	exhaustive  map[string]bool
	known       []string
	violations  []Violation
	extra       map[string]interface{}
}

// NewCollector starts evidence collection for a property.
func NewCollector(prop, level, rule string, assumptions ...string) *Collector {
	return &Collector{Prop: prop, Level: level, Rule: rule, Assumptions: assumptions, start: time.Now(),
		nontrivial: map[uint64]struct{}{}, labels: map[string]int{}, excluded: map[string]int{},
		exhaustive: map[string]bool{}, extra: map[string]interface{}{}}
}

func hashOf(v interface{}) uint64 {
	b, _ := json.Marshal(v)
	h := fnv.New64a()
	h.Write(b)
	return h.Sum64()
}

// Count records one evaluated case outside rapid (enumerations).
func (c *Collector) Count(nontrivialKey interface{}, nontrivial bool, labels ...string) {
	c.mu.Lock()
	defer c.mu.Unlock()
	c.evaluations++
	if nontrivial {
		c.nontrivial[hashOf(nontrivialKey)] = struct{}{}
	}
	for _, l := range labels {
		c.labels[l]++
	}
}

// CountN adds n evaluations that share one label (bulk sweeps); nontrivial ones are given as keys.
func (c *Collector) CountN(n int, label string) {
	c.mu.Lock()
	c.evaluations += n
	if label != "" {
		c.labels[label] += n
	}
	c.mu.Unlock()
}

// NontrivialKey registers a distinct non-trivial case key without counting an evaluation.
func (c *Collector) NontrivialKey(key interface{}) {
	c.mu.Lock()
	c.nontrivial[hashOf(key)] = struct{}{}
	c.mu.Unlock()
}

func (c *Collector) Label(l string)                { c.mu.Lock(); c.labels[l]++; c.mu.Unlock() }
func (c *Collector) Exclude(finding string)        { c.mu.Lock(); c.excluded[finding]++; c.mu.Unlock() }
func (c *Collector) SetExhaustive(box string)      { c.mu.Lock(); c.exhaustive[box] = true; c.mu.Unlock() }
func (c *Collector) Extra(k string, v interface{}) { c.mu.Lock(); c.extra[k] = v; c.mu.Unlock() }

// Sample keeps up to 6 sample cases.
func (c *Collector) Sample(v interface{}) {
	c.mu.Lock()
	if len(c.samples) < 6 {
		c.samples = append(c.samples, v)
	}
	c.mu.Unlock()
}

// Known prints a KNOWN-FINDING line (once per text).
func (c *Collector) Known(what string) {
	c.mu.Lock()
	defer c.mu.Unlock()
	for _, k := range c.known {
		if k == what {
			return
		}
	}
	c.known = append(c.known, what)
	fmt.Printf("KNOWN-FINDING: property=%s %s\n", c.Prop, what)
}

// Violate records a violation and writes its replay file; it does not stop the test.
func (c *Collector) Violate(test, msg string, trace interface{}) string {
	c.mu.Lock()
	defer c.mu.Unlock()
	name := fmt.Sprintf("replay-%s-%s-s%d-%d.json", c.Prop, sanitize(test), Seed(), Shard())
	path := filepath.Join(OutDir(), name)
	rep := map[string]interface{}{"property": c.Prop, "test": test, "seed": Seed(), "shard": Shard(),
		"tier": Tier(), "message": msg, "trace": trace}
	b, _ := json.MarshalIndent(rep, "", " ")
	os.WriteFile(path, b, 0644)
	// keep one violation per test (the last one = the shrunk one)
	for i := range c.violations {
		if c.violations[i].Test == test {
			c.violations[i] = Violation{test, msg, path}
			return path
		}
	}
	c.violations = append(c.violations, Violation{test, msg, path})
	return path
}

func sanitize(s string) string {
	return strings.Map(func(r rune) rune {
		if (r >= 'a' && r <= 'z') || (r >= 'A' && r <= 'Z') || (r >= '0' && r <= '9') || r == '_' {
			return r
		}
		return '_'
	}, s)
}

// Flush writes the evidence fragment of this process. Call via defer in the test.
func (c *Collector) Flush(t testing.TB) {
	c.mu.Lock()
	defer c.mu.Unlock()
	hashes := make([]string, 0, len(c.nontrivial))
	for h := range c.nontrivial {
		hashes = append(hashes, strconv.FormatUint(h, 16))
	}
	sort.Strings(hashes)
	exh := []string{}
	for k := range c.exhaustive {
		exh = append(exh, k)
	}
	sort.Strings(exh)
	frag := map[string]interface{}{
		"property_id": c.Prop, "level": c.Level, "rule": c.Rule, "assumptions": c.Assumptions,
		"tier": Tier(), "seed": Seed(), "shard": Shard(),
		"evaluations": c.evaluations, "nontrivial_hashes": hashes, "labels": c.labels,
		"samples": c.samples, "excluded": c.excluded, "exhaustive_boxes": exh,
		"known_findings": c.known, "violations": c.violations, "extra": c.extra,
		"wall_s": time.Since(c.start).Seconds(),
	}
	b, _ := json.MarshalIndent(frag, "", " ")
	name := fmt.Sprintf("evid-%s-%s-%d.json", c.Prop, sanitize(t.Name()), Shard())
	os.WriteFile(filepath.Join(OutDir(), name), b, 0644)
}

// Case is the per-execution context handed to a property.
type Case struct {
	c          *Collector
	rt         *rapid.T
	test       string
	Trace      []interface{}
	labels     []string
	nontrivial bool
	ntKey      interface{}
}

// Op appends one executed operation to the replayable trace.
func (cs *Case) Op(op interface{}) { cs.Trace = append(cs.Trace, op) }

// Label classifies the case (counted once per case and label).
func (cs *Case) Label(l string) {
	for _, x := range cs.labels {
		if x == l {
			return
		}
	}
	cs.labels = append(cs.labels, l)
}

// Nontrivial marks the case as non-trivial by the property's rule.
func (cs *Case) Nontrivial() { cs.nontrivial = true }

// NontrivialKey overrides the distinctness key (default: the whole trace).
func (cs *Case) NontrivialKey(k interface{}) { cs.nontrivial = true; cs.ntKey = k }

// Exclude counts a case/step excluded because of a listed finding.
func (cs *Case) Exclude(finding string) { cs.c.Exclude(finding) }

// Failf records the violation with the current trace and fails the rapid case.
func (cs *Case) Failf(format string, args ...interface{}) {
	msg := fmt.Sprintf(format, args...)
	cs.c.Violate(cs.test, msg, cs.Trace)
	cs.rt.Fatalf("%s", msg)
}

// RT is the rapid handle of the execution.
func (cs *Case) RT() *rapid.T { return cs.rt }

// Check runs prop under rapid with a pinned seed and case count, collecting evidence.
func (c *Collector) Check(t *testing.T, name string, checks int, prop func(cs *Case)) {
	t.Helper()
	flag.Set("rapid.checks", strconv.Itoa(checks))
	flag.Set("rapid.seed", strconv.FormatUint(rapidSeed(c.Prop+"/"+name), 10))
	flag.Set("rapid.nofailfile", "true")
	if os.Getenv("VERIF_SHRINKTIME") != "" {
		flag.Set("rapid.shrinktime", os.Getenv("VERIF_SHRINKTIME"))
	} else {
		flag.Set("rapid.shrinktime", "20s")
	}
	failed := false
	rapid.Check(t, func(rt *rapid.T) {
		cs := &Case{c: c, rt: rt, test: name}
		defer func() {
			if r := recover(); r != nil {
				tn := fmt.Sprintf("%T", r)
				if strings.HasPrefix(tn, "rapid.") || strings.HasPrefix(tn, "*rapid.") {
					if strings.Contains(tn, "stopTest") {
						failed = true
					}
					panic(r)
				}
				failed = true
				msg := fmt.Sprintf("panic: %v\n%s", r, debug.Stack())
				c.Violate(name, msg, cs.Trace)
				panic(r)
			}
			if rt.Failed() {
				failed = true
				return
			}
			if failed {
				return // shrink re-execution that happened to pass: not counted
			}
			c.mu.Lock()
			c.evaluations++
			for _, l := range cs.labels {
				c.labels[l]++
			}
			if cs.nontrivial {
				k := cs.ntKey
				if k == nil {
					k = cs.Trace
				}
				c.nontrivial[hashOf(k)] = struct{}{}
			}
			if len(c.samples) < 6 && (cs.nontrivial || c.evaluations%17 == 0) && len(cs.Trace) > 0 {
				c.samples = append(c.samples, map[string]interface{}{"test": name, "trace": cs.Trace})
			}
			c.mu.Unlock()
		}()
		prop(cs)
	})
}

// ReportViolations turns collected violations (from non-rapid checks) into a test failure.
func (c *Collector) ReportViolations(t testing.TB) {
	c.mu.Lock()
	defer c.mu.Unlock()
	for _, v := range c.violations {
		t.Errorf("violation in %s: %s (replay %s)", v.Test, v.Message, v.Replay)
	}
}
