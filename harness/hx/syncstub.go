package hx

// syncstub.go: the two collaborators of the miner's block synchronisation path that a single in-process node
// does not have - the p2p network (EngineCtx.Net) and the pluggable consensus (ChainCtx.Consensus) - as plain
// scripted stubs. The network answers exactly the three requests Miner.trySyncBlock / syncBlock issue
// (GET_BLOCK, GET_BLOCKCHAINSTATUS, CONFIRM_BLOCKCHAINSTATUS) the way kernel/engines/xuperos/net answers
// them; the consensus accepts every block unless it is told to refuse an id a number of times.

import (
	"github.com/golang/protobuf/proto"
	"time"

	pb "github.com/xuperchain/xupercore/bcs/ledger/xledger/xldgpb"
	xctx "github.com/xuperchain/xupercore/kernel/common/xcontext"
	"github.com/xuperchain/xupercore/kernel/consensus/base"
	cctx "github.com/xuperchain/xupercore/kernel/consensus/context"
	"github.com/xuperchain/xupercore/kernel/engines/xuperos/xpb"
	nctx "github.com/xuperchain/xupercore/kernel/network/context"
	"github.com/xuperchain/xupercore/kernel/network/p2p"
	"github.com/xuperchain/xupercore/protos"
)

// SyncNet is the scripted peer network of one node.
type SyncNet struct {
	// Blocks: what the peers serve for GET_BLOCK, keyed by string(requested block id).
	Blocks map[string]*pb.InternalBlock
	// Status: the peers' answers to GET_BLOCKCHAINSTATUS, one response message per entry.
	Status []*xpb.ChainStatus
	// Served: log of the GET_BLOCK requests, string(requested block id) in request order.
	Served []string
}

// NewSyncNet returns a network that serves nothing.
func NewSyncNet() *SyncNet { return &SyncNet{Blocks: map[string]*pb.InternalBlock{}} }

func (s *SyncNet) Start() {}
func (s *SyncNet) Stop()  {}

func (s *SyncNet) SendMessage(xctx.XContext, *protos.XuperMessage, ...p2p.OptionFunc) error {
	return nil
}

func syncResp(req *protos.XuperMessage, payload proto.Message, et protos.XuperMessage_ErrorType) *protos.XuperMessage {
	return p2p.NewMessage(p2p.GetRespMessageType(req.GetHeader().GetType()), payload,
		p2p.WithBCName(req.GetHeader().GetBcname()), p2p.WithErrorType(et), p2p.WithLogId(req.GetHeader().GetLogid()))
}

// SendMessageWithResponse answers the requests of the synchronisation path; nil for everything else.
func (s *SyncNet) SendMessageWithResponse(_ xctx.XContext, msg *protos.XuperMessage, _ ...p2p.OptionFunc) ([]*protos.XuperMessage, error) {
	switch msg.GetHeader().GetType() {
	case protos.XuperMessage_GET_BLOCK:
		var in xpb.BlockID
		if err := p2p.Unmarshal(msg, &in); err != nil {
			return nil, nil
		}
		s.Served = append(s.Served, string(in.Blockid))
		b, ok := s.Blocks[string(in.Blockid)]
		if !ok || b == nil {
			// like handleGetBlock on a ledger that does not hold the block: an error type, no block
			return []*protos.XuperMessage{syncResp(msg, nil, protos.XuperMessage_GET_BLOCK_ERROR)}, nil
		}
		out := &xpb.BlockInfo{Status: pb.BlockStatus_BLOCK_TRUNK, Block: CloneBlock(b)}
		return []*protos.XuperMessage{syncResp(msg, out, protos.XuperMessage_SUCCESS)}, nil
	case protos.XuperMessage_GET_BLOCKCHAINSTATUS:
		var out []*protos.XuperMessage
		for _, st := range s.Status {
			out = append(out, syncResp(msg, proto.Clone(st).(*xpb.ChainStatus), protos.XuperMessage_SUCCESS))
		}
		return out, nil
	case protos.XuperMessage_CONFIRM_BLOCKCHAINSTATUS:
		return []*protos.XuperMessage{syncResp(msg, &xpb.TipStatus{IsTrunkTip: true}, protos.XuperMessage_SUCCESS)}, nil
	}
	return nil, nil
}

func (s *SyncNet) NewSubscriber(protos.XuperMessage_MessageType, interface{}, ...p2p.SubscriberOption) p2p.Subscriber {
	return nil
}
func (s *SyncNet) Register(p2p.Subscriber) error   { return nil }
func (s *SyncNet) UnRegister(p2p.Subscriber) error { return nil }
func (s *SyncNet) Context() *nctx.NetCtx           { return nil }
func (s *SyncNet) PeerInfo() protos.PeerInfo       { return protos.PeerInfo{} }

// SyncConsensus accepts every block, except that Refuse[string(blockid)] > 0 makes CheckMinerMatch answer
// "no" once per unit (the consensus cannot accept the block at this moment, e.g. its slot is not due).
type SyncConsensus struct {
	Refuse  map[string]int
	Checked []string // string(block id) of every CheckMinerMatch call, in order
	// OnCompete (optional) is signalled at every CompeteMaster call: the miner loop has finished its start-up
	// synchronisation of state machine and ledger and asks whether it is its turn
	OnCompete chan struct{}
}

// NewSyncConsensus returns a consensus that accepts everything.
func NewSyncConsensus() *SyncConsensus { return &SyncConsensus{Refuse: map[string]int{}} }

func (s *SyncConsensus) CompeteMaster(height int64) (bool, bool, error) {
	if ch := s.OnCompete; ch != nil {
		select {
		case ch <- struct{}{}:
		default:
		}
		time.Sleep(time.Millisecond) // never the producer: do not spin
	}
	return false, false, nil
}

func (s *SyncConsensus) CheckMinerMatch(_ xctx.XContext, block cctx.BlockInterface) (bool, error) {
	id := string(block.GetBlockid())
	s.Checked = append(s.Checked, id)
	if s.Refuse[id] > 0 {
		s.Refuse[id]--
		return false, nil
	}
	return true, nil
}

func (s *SyncConsensus) ProcessBeforeMiner(timestamp int64) ([]byte, []byte, error) {
	return nil, nil, nil
}
func (s *SyncConsensus) CalculateBlock(block cctx.BlockInterface) error      { return nil }
func (s *SyncConsensus) ProcessConfirmBlock(block cctx.BlockInterface) error { return nil }
func (s *SyncConsensus) GetConsensusStatus() (base.ConsensusStatus, error)   { return nil, nil }
