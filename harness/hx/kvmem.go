// Package hx is the shared harness library of the /verif property checks.
//
// kvmem.go: storage engine "verifmem" registered with xupercore's kvdb registry. It delegates
// to goleveldb running on an in-memory storage (exact LevelDB read / batch semantics), and adds
//   - an ordered write log across all databases of one "world" (= one node's data directory),
//   - one-shot fault injection ("the n-th write from now fails and is not applied"),
//   - reconstruction of fresh storages from any prefix of the write log (crash images).
package hx

import (
	"errors"
	"fmt"
	"path/filepath"
	"sync"

	"github.com/syndtr/goleveldb/leveldb"
	"github.com/syndtr/goleveldb/leveldb/opt"
	"github.com/syndtr/goleveldb/leveldb/storage"
	"github.com/syndtr/goleveldb/leveldb/util"

	"github.com/xuperchain/xupercore/lib/storage/kvdb"
)

// KVOp is one key mutation.
type KVOp struct {
	Del bool
	K   []byte
	V   []byte
}

// WriteRec is one storage write (a single put / delete or one atomic batch) of one database.
type WriteRec struct {
	DB   string // base name of the database directory ("ledger" / "utxoVM")
	Kind string // put | delete | batch
	Ops  []KVOp
}

// World groups the databases of one node data directory.
type World struct {
	mu       sync.Mutex
	name     string
	stores   map[string]storage.Storage // by db base name
	open     map[string]*memDB
	Log      []WriteRec
	logOn    bool
	failIn   int // >0: countdown to the failing write
	failRead int // >0: countdown to the failing point read (Get / Has)
	Failures int // number of injected failures that fired
}

var (
	worldsMu sync.Mutex
	worlds   = map[string]*World{}
)

// ldbOpts: small write buffer (the default 4 MiB buffer is zeroed on every open and dominates the
// cost of a case); semantics are unchanged.
var ldbOpts = &opt.Options{WriteBuffer: 256 * 1024, BlockCacheCapacity: 256 * 1024, DisableSeeksCompaction: true}

// ErrInjected is returned by a write hit by fault injection.
var ErrInjected = errors.New("verifmem: injected write error")

func worldKey(dbPath string) (string, string) {
	return filepath.Dir(dbPath), filepath.Base(dbPath)
}

// GetWorld returns (creating if needed) the world whose databases live under dir.
func GetWorld(dir string) *World {
	worldsMu.Lock()
	defer worldsMu.Unlock()
	w, ok := worlds[dir]
	if !ok {
		w = &World{name: dir, stores: map[string]storage.Storage{}, open: map[string]*memDB{}, logOn: true}
		worlds[dir] = w
	}
	return w
}

// DropWorld forgets a world (its storages become garbage).
func DropWorld(dir string) {
	worldsMu.Lock()
	defer worldsMu.Unlock()
	if w, ok := worlds[dir]; ok {
		for _, db := range w.open {
			db.db.Close()
		}
		delete(worlds, dir)
	}
}

// FailNthWrite arms fault injection: the n-th (n>=1) write from now fails.
func (w *World) FailNthWrite(n int) {
	w.mu.Lock()
	w.failIn = n
	w.mu.Unlock()
}

// FailNthRead arms read-fault injection: the n-th (n>=1) point read (Get / Has) from now returns an I/O error
// (not "not found").
func (w *World) FailNthRead(n int) {
	w.mu.Lock()
	w.failRead = n
	w.mu.Unlock()
}

// ErrInjectedRead is returned by a point read hit by fault injection.
var ErrInjectedRead = errors.New("verifmem: injected read error")

func (w *World) readFault() error {
	w.mu.Lock()
	defer w.mu.Unlock()
	if w.failRead > 0 {
		w.failRead--
		if w.failRead == 0 {
			w.Failures++
			return ErrInjectedRead
		}
	}
	return nil
}

// Disarm removes a pending fault; reports whether one was still pending.
func (w *World) Disarm() bool {
	w.mu.Lock()
	defer w.mu.Unlock()
	p := w.failIn > 0 || w.failRead > 0
	w.failIn = 0
	w.failRead = 0
	return p
}

// LogLen is the current length of the write log.
func (w *World) LogLen() int {
	w.mu.Lock()
	defer w.mu.Unlock()
	return len(w.Log)
}

// SetLogging switches the write log on/off (off for replica nodes that never need images).
func (w *World) SetLogging(on bool) { w.mu.Lock(); w.logOn = on; w.mu.Unlock() }

// record applies the fault countdown and appends to the log; returns ErrInjected if the write must fail.
func (w *World) record(rec WriteRec) error {
	w.mu.Lock()
	defer w.mu.Unlock()
	if w.failIn > 0 {
		w.failIn--
		if w.failIn == 0 {
			w.Failures++
			return ErrInjected
		}
	}
	if w.logOn {
		w.Log = append(w.Log, rec)
	}
	return nil
}

// ImageAt builds a new world named dst holding the result of applying the first n log records.
func (w *World) ImageAt(n int, dst string) (*World, error) {
	w.mu.Lock()
	logCopy := w.Log[:n]
	w.mu.Unlock()
	DropWorld(dst)
	nw := GetWorld(dst)
	nw.logOn = false
	dbs := map[string]*leveldb.DB{}
	get := func(name string) (*leveldb.DB, error) {
		if d, ok := dbs[name]; ok {
			return d, nil
		}
		st := storage.NewMemStorage()
		nw.stores[name] = st
		d, err := leveldb.Open(st, ldbOpts)
		if err != nil {
			return nil, err
		}
		dbs[name] = d
		return d, nil
	}
	for _, rec := range logCopy {
		d, err := get(rec.DB)
		if err != nil {
			return nil, err
		}
		b := new(leveldb.Batch)
		for _, op := range rec.Ops {
			if op.Del {
				b.Delete(op.K)
			} else {
				b.Put(op.K, op.V)
			}
		}
		if err := d.Write(b, nil); err != nil {
			return nil, err
		}
	}
	for _, d := range dbs {
		d.Close()
	}
	return nw, nil
}

// DBNames lists the databases that exist in the world.
func (w *World) DBNames() []string {
	w.mu.Lock()
	defer w.mu.Unlock()
	out := []string{}
	for k := range w.stores {
		out = append(out, k)
	}
	return out
}

type memDB struct {
	w    *World
	name string
	db   *leveldb.DB
}

func newMem(param *kvdb.KVParameter) (kvdb.Database, error) {
	dir, name := worldKey(param.DBPath)
	w := GetWorld(dir)
	w.mu.Lock()
	defer w.mu.Unlock()
	if old, ok := w.open[name]; ok {
		// a still-open handle on the same storage: close it (the harness reopens deliberately)
		old.db.Close()
		delete(w.open, name)
	}
	st, ok := w.stores[name]
	if !ok {
		st = storage.NewMemStorage()
		w.stores[name] = st
	}
	db, err := leveldb.Open(st, ldbOpts)
	if err != nil {
		return nil, err
	}
	m := &memDB{w: w, name: name, db: db}
	w.open[name] = m
	return m, nil
}

func cp(b []byte) []byte { return append([]byte{}, b...) }

func (m *memDB) Open(path string, options map[string]interface{}) error { return nil }
func (m *memDB) Put(k, v []byte) error {
	if err := m.w.record(WriteRec{DB: m.name, Kind: "put", Ops: []KVOp{{K: cp(k), V: cp(v)}}}); err != nil {
		return err
	}
	return m.db.Put(k, v, nil)
}
func (m *memDB) Get(k []byte) ([]byte, error) {
	if err := m.w.readFault(); err != nil {
		return nil, err
	}
	return m.db.Get(k, nil)
}
func (m *memDB) Has(k []byte) (bool, error) {
	if err := m.w.readFault(); err != nil {
		return false, err
	}
	return m.db.Has(k, nil)
}
func (m *memDB) Delete(k []byte) error {
	if err := m.w.record(WriteRec{DB: m.name, Kind: "delete", Ops: []KVOp{{Del: true, K: cp(k)}}}); err != nil {
		return err
	}
	return m.db.Delete(k, nil)
}
func (m *memDB) Close() {
	m.w.mu.Lock()
	if m.w.open[m.name] == m {
		delete(m.w.open, m.name)
	}
	m.w.mu.Unlock()
	m.db.Close()
}
func (m *memDB) NewBatch() kvdb.Batch {
	return &memBatch{m: m, b: new(leveldb.Batch), keys: map[string]bool{}}
}
func (m *memDB) NewIteratorWithRange(s, l []byte) kvdb.Iterator {
	return m.db.NewIterator(&util.Range{Start: s, Limit: l}, nil)
}
func (m *memDB) NewIteratorWithPrefix(p []byte) kvdb.Iterator {
	return m.db.NewIterator(util.BytesPrefix(p), nil)
}

// memBatch mirrors lib/storage/kvdb/leveldb.ldbBatch.
type memBatch struct {
	m    *memDB
	b    *leveldb.Batch
	ops  []KVOp
	size int
	keys map[string]bool
}

func (b *memBatch) Put(k, v []byte) error {
	b.b.Put(k, v)
	b.ops = append(b.ops, KVOp{K: cp(k), V: cp(v)})
	b.size += len(v)
	return nil
}
func (b *memBatch) Delete(k []byte) error {
	b.b.Delete(k)
	b.ops = append(b.ops, KVOp{Del: true, K: cp(k)})
	b.size += len(k)
	return nil
}
func (b *memBatch) PutIfAbsent(k, v []byte) error {
	if !b.keys[string(k)] {
		b.b.Put(k, v)
		b.ops = append(b.ops, KVOp{K: cp(k), V: cp(v)})
		b.size += len(v)
		b.keys[string(k)] = true
		return nil
	}
	return fmt.Errorf("duplicated key in batch, (HEX) %x", k)
}
func (b *memBatch) Exist(k []byte) bool { return b.keys[string(k)] }
func (b *memBatch) Write() error {
	ops := make([]KVOp, len(b.ops))
	copy(ops, b.ops)
	if err := b.m.w.record(WriteRec{DB: b.m.name, Kind: "batch", Ops: ops}); err != nil {
		return err
	}
	return b.m.db.Write(b.b, nil)
}
func (b *memBatch) ValueSize() int { return b.size }
func (b *memBatch) Reset() {
	b.b.Reset()
	b.ops = nil
	b.size = 0
	b.keys = map[string]bool{}
}

func init() { kvdb.Register("verifmem", newMem) }
