package hx

// keys.go: fixed key ring with deterministic P-256 keys and a deterministic ECDSA signer.
// crypto/ecdsa signatures are randomised and the txid covers them; a deterministic signer makes
// every run a pure function of the seed. Verification is always done by the real code.

import (
	"crypto/ecdsa"
	"crypto/elliptic"
	"crypto/hmac"
	"crypto/sha256"
	"fmt"
	"math/big"

	"github.com/xuperchain/crypto/core/sign"

	cryptoClient "github.com/xuperchain/xupercore/lib/crypto/client"
	cryptoBase "github.com/xuperchain/xupercore/lib/crypto/client/base"
)

// Key is one member of the key ring.
type Key struct {
	Idx     int
	Priv    *ecdsa.PrivateKey
	Address string
	PubJSON string
	PrvJSON string
}

var (
	// Crypt is the default crypto client (same one the ledger creates for "default" crypto type).
	Crypt cryptoBase.CryptoClient
	// Ring is the fixed key ring (index 0 is the miner).
	Ring       []*Key
	ringByAddr = map[string]*Key{}
)

// RingSize is the number of keys generated at init.
const RingSize = 12

func init() {
	var err error
	Crypt, err = cryptoClient.CreateCryptoClient(cryptoClient.CryptoTypeDefault)
	if err != nil {
		panic(err)
	}
	for i := 0; i < RingSize; i++ {
		Ring = append(Ring, makeKey(i))
	}
	for _, k := range Ring {
		ringByAddr[k.Address] = k
	}
}

func makeKey(i int) *Key {
	c := elliptic.P256()
	h := sha256.Sum256([]byte(fmt.Sprintf("verif-key-%d", i)))
	d := new(big.Int).SetBytes(h[:])
	n1 := new(big.Int).Sub(c.Params().N, big.NewInt(1))
	d.Mod(d, n1)
	d.Add(d, big.NewInt(1))
	priv := &ecdsa.PrivateKey{D: d}
	priv.PublicKey.Curve = c
	priv.PublicKey.X, priv.PublicKey.Y = c.ScalarBaseMult(d.Bytes())
	addr, err := Crypt.GetAddressFromPublicKey(&priv.PublicKey)
	if err != nil {
		panic(err)
	}
	pub, err := Crypt.GetEcdsaPublicKeyJsonFormatStr(priv)
	if err != nil {
		panic(err)
	}
	prv, err := Crypt.GetEcdsaPrivateKeyJsonFormatStr(priv)
	if err != nil {
		panic(err)
	}
	return &Key{Idx: i, Priv: priv, Address: addr, PubJSON: pub, PrvJSON: prv}
}

// KeyOf returns the ring key owning an address (nil if none).
func KeyOf(addr string) *Key { return ringByAddr[addr] }

// DetSign is a deterministic ECDSA signature (nonce = HMAC-SHA256(d, digest || counter)).
func DetSign(priv *ecdsa.PrivateKey, digest []byte) []byte {
	c := priv.Curve
	N := c.Params().N
	e := new(big.Int).SetBytes(digest)
	if len(digest)*8 > N.BitLen() {
		e.Rsh(e, uint(len(digest)*8-N.BitLen()))
	}
	for ctr := 0; ; ctr++ {
		mac := hmac.New(sha256.New, priv.D.Bytes())
		mac.Write(digest)
		mac.Write([]byte{byte(ctr)})
		k := new(big.Int).SetBytes(mac.Sum(nil))
		k.Mod(k, N)
		if k.Sign() == 0 {
			continue
		}
		rx, _ := c.ScalarBaseMult(k.Bytes())
		r := new(big.Int).Mod(rx, N)
		if r.Sign() == 0 {
			continue
		}
		kinv := new(big.Int).ModInverse(k, N)
		s := new(big.Int).Mul(r, priv.D)
		s.Add(s, e)
		s.Mul(s, kinv)
		s.Mod(s, N)
		if s.Sign() == 0 {
			continue
		}
		sig, err := sign.MarshalECDSASignature(r, s)
		if err != nil {
			panic(err)
		}
		return sig
	}
}
