package hx

// blocks.go: block and transaction factories shared by the ledger-level and node-level machines.

import (
	"fmt"
	"math/big"

	"github.com/golang/protobuf/proto"

	ledgerpkg "github.com/xuperchain/xupercore/bcs/ledger/xledger/ledger"
	"github.com/xuperchain/xupercore/bcs/ledger/xledger/state/utxo/txhash"
	pb "github.com/xuperchain/xupercore/bcs/ledger/xledger/xldgpb"
	"github.com/xuperchain/xupercore/protos"
)

// CloneTx deep-copies a transaction (ConfirmBlock mutates tx.Blockid of the objects it is given).
func CloneTx(tx *pb.Transaction) *pb.Transaction { return proto.Clone(tx).(*pb.Transaction) }

// CloneTxs deep-copies a list.
func CloneTxs(txs []*pb.Transaction) []*pb.Transaction {
	out := make([]*pb.Transaction, len(txs))
	for i, t := range txs {
		out[i] = CloneTx(t)
	}
	return out
}

// CloneBlock deep-copies a block.
func CloneBlock(b *pb.InternalBlock) *pb.InternalBlock { return proto.Clone(b).(*pb.InternalBlock) }

// AwardTx builds a deterministic coinbase transaction (tx.GenerateAwardTx uses the wall clock).
func AwardTx(addr string, amount *big.Int, desc string, ts int64) *pb.Transaction {
	tx := &pb.Transaction{Version: 1, Coinbase: true, Desc: []byte(desc), Timestamp: ts}
	tx.TxOutputs = []*protos.TxOutput{{ToAddr: []byte(addr), Amount: amount.Bytes()}}
	tx.Txid, _ = txhash.MakeTransactionID(tx)
	return tx
}

// DummyTx builds an unsigned placeholder transaction (ledger-only machines never validate it).
func DummyTx(label string) *pb.Transaction {
	tx := &pb.Transaction{Version: 1, Desc: []byte(label), Nonce: label, Timestamp: 1}
	tx.Txid, _ = txhash.MakeTransactionID(tx)
	return tx
}

// MakeBlock formats and signs a block on top of (preHash, height-1) with the given proposer key.
func MakeBlock(leg *ledgerpkg.Ledger, proposer *Key, preHash []byte, height int64, ts int64,
	txs []*pb.Transaction) (*pb.InternalBlock, error) {
	b, err := leg.FormatMinerBlock(txs, []byte(proposer.Address), proposer.Priv, ts, 0, 0, preHash, 0,
		big.NewInt(0), nil, nil, height)
	if err != nil {
		return nil, fmt.Errorf("format block: %v", err)
	}
	return b, nil
}

// Hex8 abbreviates an id for messages.
func Hex8(b []byte) string {
	if len(b) > 4 {
		b = b[:4]
	}
	return fmt.Sprintf("%x", b)
}
