package hx

// nodemodel.go: reference model of the chain state (UTXO set, total, versioned KV), written from
// the property statements, plus the transaction builder that assembles signed transactions from
// model state the way a client does.

import (
	"bytes"
	"encoding/hex"
	"errors"
	"fmt"
	"math/big"
	"sort"

	"github.com/xuperchain/xupercore/bcs/ledger/xledger/state/utxo/txhash"
	"github.com/xuperchain/xupercore/bcs/ledger/xledger/state/xmodel"
	pb "github.com/xuperchain/xupercore/bcs/ledger/xledger/xldgpb"
	"github.com/xuperchain/xupercore/kernel/contract"
	kledger "github.com/xuperchain/xupercore/kernel/ledger"
	"github.com/xuperchain/xupercore/protos"
)

const (
	DelFlag         = "\x00"
	TransientBucket = "$transient"
	FeeAddr         = "$"
)

// UTXO is one unspent output of the model.
type UTXO struct {
	Addr   string
	Txid   []byte
	Off    int32
	Amount *big.Int
	Frozen int64
}

func UKey(addr string, txid []byte, off int32) string {
	return fmt.Sprintf("%s_%x_%d", addr, txid, off)
}
func (u *UTXO) Key() string { return UKey(u.Addr, u.Txid, u.Off) }

// KVer is the current version of one key (a deleted key keeps its version, value = DelFlag).
type KVer struct {
	Bucket string
	Key    string
	Txid   []byte
	Off    int32
	Value  []byte
}

func (k *KVer) Deleted() bool { return k != nil && string(k.Value) == DelFlag }
func (k *KVer) Version() string {
	if k == nil {
		return ""
	}
	return fmt.Sprintf("%x_%d", k.Txid, k.Off)
}

// MState is the chain state after some block (optionally plus pool transactions).
type MState struct {
	U     map[string]*UTXO
	KV    map[string]*KVer // raw key "bucket/key"
	Total *big.Int
}

func NewMState() *MState {
	return &MState{U: map[string]*UTXO{}, KV: map[string]*KVer{}, Total: big.NewInt(0)}
}

func (s *MState) Clone() *MState {
	n := &MState{U: make(map[string]*UTXO, len(s.U)), KV: make(map[string]*KVer, len(s.KV)), Total: new(big.Int).Set(s.Total)}
	for k, v := range s.U {
		n.U[k] = v
	}
	for k, v := range s.KV {
		n.KV[k] = v
	}
	return n
}

func RawKey(bucket, key string) string { return bucket + "/" + key }

// ErrStale marks an admission failure caused by an input that is not current.
var ErrStale = errors.New("input not current")

// Check decides from the model whether tx is admissible on top of s (ledgerHeight = ledger trunk
// height, which the code uses to judge frozen outputs). It returns nil or the reason.
func (s *MState) Check(tx *pb.Transaction, ledgerHeight int64) error {
	seen := map[string]bool{}
	in := big.NewInt(0)
	for _, ti := range tx.TxInputs {
		k := UKey(string(ti.FromAddr), ti.RefTxid, ti.RefOffset)
		if seen[k] {
			return fmt.Errorf("duplicate input %s", k)
		}
		seen[k] = true
		u, ok := s.U[k]
		if !ok {
			return fmt.Errorf("%w: output %s is not unspent", ErrStale, k)
		}
		if !bytes.Equal(u.Amount.Bytes(), ti.Amount) {
			return fmt.Errorf("input %s cites amount %x, output has %s", k, ti.Amount, u.Amount)
		}
		if u.Frozen > ledgerHeight || u.Frozen == -1 {
			return fmt.Errorf("input %s frozen until %d (ledger height %d)", k, u.Frozen, ledgerHeight)
		}
		if ti.FrozenHeight != u.Frozen {
			return fmt.Errorf("input %s cites frozen height %d, output has %d", k, ti.FrozenHeight, u.Frozen)
		}
		in.Add(in, u.Amount)
	}
	out := big.NewInt(0)
	for _, to := range tx.TxOutputs {
		out.Add(out, new(big.Int).SetBytes(to.Amount))
	}
	if in.Cmp(out) != 0 && !(tx.Coinbase && in.Sign() == 0) {
		return fmt.Errorf("inputs %s != outputs %s", in, out)
	}
	readKeys := map[string]bool{}
	for _, ie := range tx.TxInputsExt {
		rk := RawKey(ie.Bucket, string(ie.Key))
		readKeys[rk] = true
		cur := s.KV[rk]
		cited := ""
		if ie.RefTxid != nil {
			cited = fmt.Sprintf("%x_%d", ie.RefTxid, ie.RefOffset)
		}
		if cur.Version() != cited {
			return fmt.Errorf("%w: key %s cited at version %q, current %q", ErrStale, rk, cited, cur.Version())
		}
	}
	for _, oe := range tx.TxOutputsExt {
		if oe.Bucket == TransientBucket {
			continue
		}
		if !readKeys[RawKey(oe.Bucket, string(oe.Key))] {
			return fmt.Errorf("key %s written but not read", RawKey(oe.Bucket, string(oe.Key)))
		}
		if oe.Value == nil {
			return fmt.Errorf("nil value written")
		}
	}
	return nil
}

// Apply applies tx (assumed admissible). proposer != "" materialises fee outputs for the proposer
// (block play); proposer == "" is a pool admission (fee outputs are not materialised).
func (s *MState) Apply(tx *pb.Transaction, proposer string) {
	for _, ti := range tx.TxInputs {
		delete(s.U, UKey(string(ti.FromAddr), ti.RefTxid, ti.RefOffset))
	}
	for off, to := range tx.TxOutputs {
		amt := new(big.Int).SetBytes(to.Amount)
		addr := string(to.ToAddr)
		if addr == FeeAddr {
			if proposer == "" {
				continue
			}
			u := &UTXO{Addr: proposer, Txid: tx.Txid, Off: int32(off), Amount: amt, Frozen: 0}
			s.U[u.Key()] = u
			continue
		}
		if amt.Sign() == 0 {
			continue
		}
		u := &UTXO{Addr: addr, Txid: tx.Txid, Off: int32(off), Amount: amt, Frozen: to.FrozenHeight}
		s.U[u.Key()] = u
		if tx.Coinbase {
			s.Total.Add(s.Total, amt)
		}
	}
	for off, oe := range tx.TxOutputsExt {
		if oe.Bucket == TransientBucket {
			continue
		}
		rk := RawKey(oe.Bucket, string(oe.Key))
		s.KV[rk] = &KVer{Bucket: oe.Bucket, Key: string(oe.Key), Txid: tx.Txid, Off: int32(off), Value: oe.Value}
	}
}

// UtxosOf lists the unspent outputs of an address in a deterministic order.
func (s *MState) UtxosOf(addr string) []*UTXO {
	var out []*UTXO
	for _, u := range s.U {
		if u.Addr == addr {
			out = append(out, u)
		}
	}
	sort.Slice(out, func(i, j int) bool { return out[i].Key() < out[j].Key() })
	return out
}

// Balance sums the unspent outputs of an address.
func (s *MState) Balance(addr string) *big.Int {
	b := big.NewInt(0)
	for _, u := range s.U {
		if u.Addr == addr {
			b.Add(b, u.Amount)
		}
	}
	return b
}

// SumU sums all unspent outputs.
func (s *MState) SumU() *big.Int {
	b := big.NewInt(0)
	for _, u := range s.U {
		b.Add(b, u.Amount)
	}
	return b
}

// ---- XMReader over the model (mimics xmodel.XModel: empty data for never-written keys,
// the delete-marker version for deleted keys, Select over live keys only) ----

type modelReader struct{ s *MState }

// Reader exposes the model state through the kernel's XMReader interface.
func (s *MState) Reader() kledger.XMReader { return &modelReader{s} }

func (r *modelReader) Get(bucket string, key []byte) (*kledger.VersionedData, error) {
	k := r.s.KV[RawKey(bucket, string(key))]
	if k == nil {
		return &kledger.VersionedData{PureData: &kledger.PureData{Bucket: bucket, Key: key}}, nil
	}
	return &kledger.VersionedData{RefTxid: k.Txid, RefOffset: k.Off, PureData: &kledger.PureData{Bucket: bucket, Key: []byte(k.Key), Value: k.Value}}, nil
}

type modelIter struct {
	items []*kledger.VersionedData
	pos   int
}

func (it *modelIter) Next() bool { it.pos++; return it.pos < len(it.items) }
func (it *modelIter) Key() []byte {
	if it.pos < 0 || it.pos >= len(it.items) {
		return nil
	}
	return it.items[it.pos].PureData.Key
}
func (it *modelIter) Value() *kledger.VersionedData {
	if it.pos < 0 || it.pos >= len(it.items) {
		return nil
	}
	return it.items[it.pos]
}
func (it *modelIter) Error() error { return nil }
func (it *modelIter) Close()       {}

func (r *modelReader) Select(bucket string, startKey []byte, endKey []byte) (kledger.XMIterator, error) {
	lo, hi := RawKey(bucket, string(startKey)), RawKey(bucket, string(endKey))
	var keys []string
	for rk, k := range r.s.KV {
		if k.Bucket == bucket && !k.Deleted() && rk >= lo && rk < hi {
			keys = append(keys, rk)
		}
	}
	sort.Strings(keys)
	it := &modelIter{pos: -1}
	for _, rk := range keys {
		k := r.s.KV[rk]
		it.items = append(it.items, &kledger.VersionedData{RefTxid: k.Txid, RefOffset: k.Off, PureData: &kledger.PureData{Bucket: bucket, Key: []byte(k.Key), Value: k.Value}})
	}
	return it, nil
}

// utxo reader over the model for contract-originated transfers
type modelUtxoReader struct {
	s      *MState
	height int64
}

func (r *modelUtxoReader) SelectUtxo(from string, need *big.Int, lock, excl bool) ([]*protos.TxInput, [][]byte, *big.Int, error) {
	if need.Sign() == 0 {
		return nil, nil, big.NewInt(0), nil
	}
	tot := big.NewInt(0)
	var ins []*protos.TxInput
	for _, u := range r.s.UtxosOf(from) {
		if u.Frozen > r.height || u.Frozen == -1 {
			continue
		}
		ins = append(ins, &protos.TxInput{RefTxid: u.Txid, RefOffset: u.Off, FromAddr: []byte(from), Amount: u.Amount.Bytes(), FrozenHeight: u.Frozen})
		tot.Add(tot, u.Amount)
		if tot.Cmp(need) >= 0 {
			return ins, nil, tot, nil
		}
	}
	return nil, nil, nil, errors.New("no enough money(UTXO) to start this transaction")
}

// ---- transaction specifications (plain data) and the builder ----

// InRef names one output to spend.
type InRef struct {
	Addr   int    `json:"addr"` // ring index of the owner (-1: use AddrS)
	AddrS  string `json:"addrs,omitempty"`
	Txid   string `json:"txid"` // hex
	Off    int32  `json:"off"`
	Amount string `json:"amount"` // decimal, as cited by the spender
	Frozen int64  `json:"frozen,omitempty"`
	Raw    string `json:"raw,omitempty"` // hex of the cited amount bytes when a non-canonical encoding is wanted
}

// OutSpec is one output to create.
type OutSpec struct {
	To     int    `json:"to"` // ring index; -1 = fee "$"; -2 = ToS
	ToS    string `json:"tos,omitempty"`
	Amount string `json:"amount"` // decimal
	Frozen int64  `json:"frozen,omitempty"`
	Raw    string `json:"raw,omitempty"` // hex of the amount bytes when a non-canonical encoding is wanted
}

// TxSpec describes one transaction completely (replayable without the generator).
type TxSpec struct {
	From     int               `json:"from"`    // initiator / signer ring index
	Seq      int               `json:"seq"`     // nonce / timestamp counter
	Version  int32             `json:"version"` // 1..3
	Ins      []InRef           `json:"ins,omitempty"`
	Outs     []OutSpec         `json:"outs,omitempty"`
	Prog     []Ins             `json:"prog,omitempty"` // contract program ($verif.Run)
	Contract string            `json:"contract,omitempty"`
	ConAmt   int64             `json:"conamt,omitempty"` // amount transferred to the contract with the call
	Desc     string            `json:"desc,omitempty"`
	DescLen  int               `json:"desclen,omitempty"`  // bulky transaction: desc = DescLen filler bytes
	NoncePad int               `json:"noncepad,omitempty"` // the nonce (a free-form string field) is padded to more than NoncePad bytes
	Coinbase bool              `json:"coinbase,omitempty"` // adversarial: coinbase flag on a submitted transaction
	Marked   bool              `json:"marked,omitempty"`   // adversarial: ModifyBlock{Marked} set (metadata outside id and signatures)
	Autogen  bool              `json:"autogen,omitempty"`  // adversarial: autogen flag on a submitted transaction
	Method   string            `json:"method,omitempty"`   // with Args: call Contract.Method(Args) instead of $verif.Run(Prog)
	Args     map[string]string `json:"args,omitempty"`
}

// IsContract tells whether the spec carries a contract invocation.
func (s *TxSpec) IsContract() bool { return len(s.Prog) > 0 || s.Method != "" }

func (r InRef) addr() string {
	if r.Addr >= 0 {
		return Ring[r.Addr].Address
	}
	return r.AddrS
}

func (o OutSpec) addr() string {
	switch {
	case o.To >= 0:
		return Ring[o.To].Address
	case o.To == -1:
		return FeeAddr
	}
	return o.ToS
}

func (o OutSpec) amountBytes() []byte {
	if o.Raw != "" {
		b, _ := hex.DecodeString(o.Raw)
		return b
	}
	a, _ := new(big.Int).SetString(o.Amount, 10)
	if a == nil {
		a = big.NewInt(0)
	}
	return a.Bytes()
}

// NonceOf renders the nonce of a spec: "n<seq>", padded with a position-dependent filler when NoncePad is set (string
// fields far longer than any name or address: every byte of them is covered content)
func NonceOf(spec *TxSpec) string {
	n := fmt.Sprintf("n%d", spec.Seq)
	if spec.NoncePad > 0 {
		b := []byte(n + "-")
		for i := 0; len(b) < spec.NoncePad+len(n)+1; i++ {
			b = append(b, byte('a'+i%23))
		}
		n = string(b)
	}
	return n
}

// descOf renders the description of a spec (DescLen filler bytes for bulky transactions).
func descOf(spec *TxSpec) []byte {
	if spec.DescLen > 0 {
		return bytes.Repeat([]byte{'x'}, spec.DescLen)
	}
	return []byte(spec.Desc)
}

// SignTx signs tx as its initiator (+ identical AuthRequire entry) with the deterministic signer
// and sets the txid.
func SignTx(tx *pb.Transaction, keys ...*Key) {
	digest, err := txhash.MakeTxDigestHash(tx)
	if err != nil {
		panic(err)
	}
	tx.InitiatorSigns = []*protos.SignatureInfo{{PublicKey: keys[0].PubJSON, Sign: DetSign(keys[0].Priv, digest)}}
	tx.AuthRequireSigns = nil
	for _, k := range keys {
		tx.AuthRequireSigns = append(tx.AuthRequireSigns, &protos.SignatureInfo{PublicKey: k.PubJSON, Sign: DetSign(k.Priv, digest)})
	}
	tx.Txid, _ = txhash.MakeTransactionID(tx)
}

// PreExecResult is what pre-execution of a contract program produced.
type PreExecResult struct {
	Err      error
	Status   int
	Body     []byte
	GasUsed  int64
	RWSet    *contract.RWSet
	UtxoRW   *contract.UTXORWSet
	Requests []*protos.InvokeRequest
}

// PreExecOn runs the program of spec in a sandbox over the given readers through the real contract
// manager (the same call sequence as Chain.PreExec for a single request).
func PreExecOn(mg contract.Manager, spec *TxSpec, xr kledger.XMReader, ur contract.UtxoReader, gasPrice *protos.GasPrice) *PreExecResult {
	res := &PreExecResult{}
	sb, err := mg.NewStateSandbox(&contract.SandboxConfig{XMReader: xr, UTXOReader: ur})
	if err != nil {
		res.Err = err
		return res
	}
	cname := spec.Contract
	if cname == "" {
		cname = VerifContract
	}
	initiator := Ring[spec.From].Address
	method := "Run"
	args := EncodeProg(spec.Prog)
	if spec.Method != "" {
		method = spec.Method
		args = map[string][]byte{}
		for k, v := range spec.Args {
			args[k] = []byte(v)
		}
	}
	req := &protos.InvokeRequest{ModuleName: "xkernel", ContractName: cname, MethodName: method, Args: args}
	cfg := &contract.ContextConfig{State: sb, Initiator: initiator, AuthRequire: []string{initiator},
		Module: "xkernel", ContractName: cname, ResourceLimits: contract.MaxLimits}
	if spec.ConAmt > 0 {
		req.Amount = fmt.Sprint(spec.ConAmt)
		cfg.TransferAmount = req.Amount
	}
	ctx, err := mg.NewContext(cfg)
	if err != nil {
		res.Err = err
		return res
	}
	resp, err := ctx.Invoke(method, req.Args)
	if err != nil {
		ctx.Release()
		res.Err = err
		return res
	}
	used := ctx.ResourceUsed()
	ctx.Release()
	if err := sb.Flush(); err != nil {
		res.Err = err
		return res
	}
	res.Status = resp.Status
	res.Body = resp.Body
	res.GasUsed = used.TotalGas(gasPrice)
	r2 := *req
	r2.ResourceLimits = contract.ToPbLimits(used)
	res.Requests = []*protos.InvokeRequest{&r2}
	res.RWSet = sb.RWSet()
	res.UtxoRW = sb.UTXORWSet()
	return res
}

// BuildTx assembles and signs the transaction described by spec. For a contract transaction pre
// must be the result of the pre-execution (its read/write set, contract transfers and gas are
// assembled exactly as a client does from an InvokeResponse).
func BuildTx(spec *TxSpec, pre *PreExecResult) *pb.Transaction {
	k := Ring[spec.From]
	v := spec.Version
	if v == 0 {
		v = 3
	}
	tx := &pb.Transaction{Version: v, Nonce: NonceOf(spec), Timestamp: int64(spec.Seq), Initiator: k.Address,
		AuthRequire: []string{k.Address}, Desc: descOf(spec), Coinbase: spec.Coinbase, Autogen: spec.Autogen}
	if spec.Marked {
		tx.ModifyBlock = &pb.ModifyBlock{Marked: true, EffectiveTxid: "00"}
	}
	for _, r := range spec.Ins {
		id, _ := hex.DecodeString(r.Txid)
		a, _ := new(big.Int).SetString(r.Amount, 10)
		if a == nil {
			a = big.NewInt(0)
		}
		ab := a.Bytes()
		if r.Raw != "" {
			ab, _ = hex.DecodeString(r.Raw)
		}
		tx.TxInputs = append(tx.TxInputs, &protos.TxInput{RefTxid: id, RefOffset: r.Off, FromAddr: []byte(r.addr()), Amount: ab, FrozenHeight: r.Frozen})
	}
	for _, o := range spec.Outs {
		tx.TxOutputs = append(tx.TxOutputs, &protos.TxOutput{ToAddr: []byte(o.addr()), Amount: o.amountBytes(), FrozenHeight: o.Frozen})
	}
	if pre != nil {
		tx.ContractRequests = pre.Requests
		tx.TxInputsExt = xmodel.GetTxInputs(pre.RWSet.RSet)
		tx.TxOutputsExt = xmodel.GetTxOutputs(pre.RWSet.WSet)
		tx.TxInputs = append(tx.TxInputs, pre.UtxoRW.Rset...)
		tx.TxOutputs = append(tx.TxOutputs, pre.UtxoRW.WSet...)
	}
	SignTx(tx, k)
	return tx
}

// AddrOfRef is the address an input reference cites as the owner of the output.
func AddrOfRef(r InRef) string { return r.addr() }
