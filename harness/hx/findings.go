package hx

// findings.go: the committed known-findings file (/verif/known_findings.json). It is only read.
// An entry with status "known" becomes *active* in a run only if its witness probe still fails on
// the tree under test; only then is the KNOWN-FINDING line printed (by the owning property) and the
// narrowly matching trigger shape excluded from generators / normalised in oracles. Entries with
// status "fixed" never exclude anything.

import (
	"encoding/json"
	"os"
	"path/filepath"
	"sort"
	"sync"
)

// Finding is one entry of known_findings.json.
type Finding struct {
	Property string `json:"property"`
	ID       string `json:"id"`
	Status   string `json:"status"` // known | fixed
	Commit   string `json:"commit,omitempty"`
	Witness  string `json:"witness,omitempty"`
	What     string `json:"what"`
}

// FindingSet is the loaded file plus the per-run activation state.
type FindingSet struct {
	mu     sync.Mutex
	byID   map[string]Finding
	active map[string]bool
	probed map[string]bool
	flags  map[string]bool
}

// LoadFindings reads known_findings.json (missing file = no findings).
func LoadFindings() *FindingSet {
	fs := &FindingSet{byID: map[string]Finding{}, active: map[string]bool{}, probed: map[string]bool{}, flags: map[string]bool{}}
	b, err := os.ReadFile(filepath.Join(VerifRoot(), "known_findings.json"))
	if err != nil {
		return fs
	}
	var doc struct {
		Findings []Finding `json:"findings"`
	}
	if json.Unmarshal(b, &doc) == nil {
		for _, f := range doc.Findings {
			fs.byID[f.ID] = f
		}
	}
	return fs
}

// Resolve decides whether a listed finding is active in this run: it must be listed with status
// "known" and probe() must report that the witness still fails. The owner property passes its
// collector so that the KNOWN-FINDING line is printed; other properties pass nil.
func (fs *FindingSet) Resolve(id string, owner *Collector, probe func() bool) bool {
	if fs == nil {
		return false
	}
	fs.mu.Lock()
	f, ok := fs.byID[id]
	done := fs.probed[id]
	fs.mu.Unlock()
	if !ok || f.Status != "known" {
		return false
	}
	if !done {
		still := probe()
		fs.mu.Lock()
		fs.probed[id] = true
		fs.active[id] = still
		fs.mu.Unlock()
	}
	act := fs.Active(id)
	if act && owner != nil {
		owner.Known(f.What)
	}
	return act
}

// Active reports whether a finding was resolved as active.
func (fs *FindingSet) Active(id string) bool {
	if fs == nil {
		return false
	}
	fs.mu.Lock()
	defer fs.mu.Unlock()
	return fs.active[id]
}

// All returns every listed finding (sorted by id).
func (fs *FindingSet) All() []Finding {
	if fs == nil {
		return nil
	}
	fs.mu.Lock()
	defer fs.mu.Unlock()
	out := make([]Finding, 0, len(fs.byID))
	for _, f := range fs.byID {
		out = append(out, f)
	}
	sort.Slice(out, func(i, j int) bool { return out[i].ID < out[j].ID })
	return out
}

// Listed returns the entry (any status).
func (fs *FindingSet) Listed(id string) (Finding, bool) {
	if fs == nil {
		return Finding{}, false
	}
	fs.mu.Lock()
	defer fs.mu.Unlock()
	f, ok := fs.byID[id]
	return f, ok
}

// Flag / SetFlag: small per-case scratch flags used by exclusions (reset with ResetFlags).
func (fs *FindingSet) Flag(name string) bool {
	if fs == nil {
		return false
	}
	fs.mu.Lock()
	defer fs.mu.Unlock()
	return fs.flags[name]
}
func (fs *FindingSet) SetFlag(name string, v bool) {
	if fs == nil {
		return
	}
	fs.mu.Lock()
	fs.flags[name] = v
	fs.mu.Unlock()
}
func (fs *FindingSet) ResetFlags() {
	if fs == nil {
		return
	}
	fs.mu.Lock()
	fs.flags = map[string]bool{}
	fs.mu.Unlock()
}
