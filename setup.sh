#!/bin/sh
# setup_cmd: offline; prepares go.sum of the harness module and warms the Go build cache.
set -e
cd "$(dirname "$0")"
export GOFLAGS=-mod=mod GOPROXY=off GOSUMDB=off GOTOOLCHAIN=local
cp /repo/go.sum harness/go.sum
[ -f harness/go.sum.extra ] && cat harness/go.sum.extra >> harness/go.sum
mkdir -p .work evidence replays
cd harness
go test -c -tags verif -vet=off -o ../.work/warm.test ./props
go test -c -race -tags verif -vet=off -o ../.work/warm.race.test ./props
rm -f ../.work/warm.test ../.work/warm.race.test
echo setup ok
