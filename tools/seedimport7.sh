#!/bin/bash
# tools/seedimport7.sh Cxx : seventh seeding round (/tmp/seed7-Cxx/out: a) -> seeded/Cxx-k
p=$1
o=/tmp/seed7-$p/out
[ -f $o/a.patch.diff ] || { echo "no delivery for $p"; exit 1; }
d=/verif/seeded/$p-k; mkdir -p $d
cp $o/a.patch.diff $d/patch.diff; cp $o/a.demo_test.go.txt $d/demo_test.go.txt; cp $o/a.meta.json $d/agent_meta.json
echo "imported $d"
