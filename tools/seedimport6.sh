#!/bin/bash
# tools/seedimport5.sh Cxx : sixth seeding round (/tmp/seed6-Cxx/out: a) -> seeded/Cxx-j
p=$1
o=/tmp/seed6-$p/out
[ -f $o/a.patch.diff ] || { echo "no delivery for $p"; exit 1; }
d=/verif/seeded/$p-j; mkdir -p $d
cp $o/a.patch.diff $d/patch.diff; cp $o/a.demo_test.go.txt $d/demo_test.go.txt; cp $o/a.meta.json $d/agent_meta.json
echo "imported $d"
