#!/usr/bin/env python3
# tools/seedgen7.py : seventh seeding round (subset of properties: argv) - per property a prompt (/tmp/seed7-Cxx/PROMPT.txt) and a scratch worktree
# (/tmp/seed7-Cxx/wt).  The prompt holds ONLY the property text, the template, and the one-line summaries of the
# changes earlier agents delivered for that property (so that ideas are not repeated) - nothing about the checks.
import json,os,subprocess,glob,sys
import re
SHORT=json.load(open('/verif/tools/seedshort.json'))
def first_sentence(t,n=170):
    t=re.sub(r'\s+',' ',t).strip()
    m=re.search(r'(.{40,%d}?[.;:])\s'%n,t+' ')
    return (m.group(1) if m else t[:n])
tpl=open('/verif/tools/seedprompts/TEMPLATE7.txt').read()
for line in open('/verif/properties.jsonl'):
    p=json.loads(line); pid=p['id']
    if len(sys.argv)>1 and pid not in sys.argv[1:]: continue
    base=f'/tmp/seed7-{pid}'; wt=base+'/wt'; out=base+'/out'
    os.makedirs(base,exist_ok=True)
    if not os.path.isdir(wt):
        subprocess.run(['git','-C','/repo','worktree','add','--detach',wt,'HEAD'],check=True,capture_output=True)
    earlier=[]
    for d in sorted(glob.glob(f'/verif/seeded/{pid}-*')):
        sid=os.path.basename(d)
        try: m=json.load(open(d+'/meta.json'))
        except Exception: continue
        # the CHANGE only (same rule as the 'change' column of DESIGN 9.7) - never the detection note
        if sid in SHORT: change=SHORT[sid]
        elif m.get('first_run','').startswith('DETECTED'): change=m.get('note','')
        else: change=first_sentence(m.get('breaks',''),240)
        earlier.append(' - '+change.replace('\n',' '))
    a=p['anchors']
    files=', '.join(a.get('files',[]))
    m=a.get('mechanism')
    mech=m if isinstance(m,str) else '; '.join(x if isinstance(x,str) else json.dumps(x) for x in (m or []))
    txt=tpl.format(wt=wt,out=out,pid=pid,pid_l=pid.lower(),title=p['title'],statement=p['statement'],quant=p['quantifier'],
                   why=p['why_tests_cant'],files=files,mech=mech,earlier='\n'.join(earlier))
    open(base+'/PROMPT.txt','w').write(txt)
    print(pid,len(txt))
