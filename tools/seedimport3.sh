#!/bin/bash
# tools/seedimport3.sh Cxx : third seeding round (/tmp/seed3-Cxx/out: a,b) -> seeded/Cxx-f, Cxx-g
p=$1
i=0
for v in a b; do
  o=/tmp/seed3-$p/out
  t=$(echo f g | cut -d' ' -f$((i+1))); i=$((i+1))
  [ -f $o/$v.patch.diff ] || continue
  d=/verif/seeded/$p-$t; mkdir -p $d
  cp $o/$v.patch.diff $d/patch.diff; cp $o/$v.demo_test.go.txt $d/demo_test.go.txt; cp $o/$v.meta.json $d/agent_meta.json
  echo "imported $d"
done
