#!/usr/bin/env python3
"""Regenerate the table of DESIGN.md section 9.7 from seeded/*/meta.json (first-round rows keep their hand-written
one-line descriptions, which are stored in SHORT)."""
import json, os, re
ROOT = os.path.dirname(os.path.dirname(os.path.abspath(__file__)))
SHORT = json.load(open(os.path.join(ROOT, "tools", "seedshort.json")))

def first_sentence(t, n=170):
    t = re.sub(r"\s+", " ", t).strip()
    m = re.search(r"(.{40,%d}?[.;:])\s" % n, t + " ")
    s = m.group(1) if m else t[:n]
    return s.replace("|", "/")

rows = []
for sid in sorted(os.listdir(os.path.join(ROOT, "seeded"))):
    mp = os.path.join(ROOT, "seeded", sid, "meta.json")
    if not os.path.exists(mp):
        continue
    m = json.load(open(mp))
    first = m.get("first_run", "")
    det = ", ".join(m.get("detected_by", [])) or "-"
    note = m.get("note", "").replace("|", "/")
    if sid in SHORT:
        change = SHORT[sid]
    elif first.startswith("DETECTED"):
        change = note
    else:
        change = first_sentence(m.get("breaks", ""))
    need = "" if first.startswith("DETECTED") else note
    rows.append("| %s | %s | %s | %s | %s |" % (sid, change, first, det, need))
p = os.path.join(ROOT, "DESIGN.md")
s = open(p).read()
i = s.index("| id | change | first run | caught by | what the miss needed |")
j = s.index("\n\n", i) if "\n\n" in s[i:] else len(s)
head = "| id | change | first run | caught by | what the miss needed |\n|---|---|---|---|---|\n"
s = s[:i] + head + "\n".join(rows) + "\n" + s[j:]
open(p, "w").write(s)
missed = [r for r in rows if "| MISSED" in r]
print(len(rows), "rows;", len(missed), "first-run misses")
