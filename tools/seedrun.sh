#!/bin/bash
# Run the quick tier of the named checks against a scratch copy of /repo with a seeded patch.
#   tools/seedrun.sh <patch.diff> C01 [C02 ...]       (env VERIF_SEED, VERIF_TIER honoured)
# Prints DETECTED / MISSED per check with the first violation message.
patch=$(readlink -f "$1"); shift
name=seed$$
for p in "$@"; do
  out=$(/verif/tools/scratch.sh $name-$p -p "$patch" -- -run "^Test(Race)?$p\$" -timeout 20m 2>&1)
  rc=$?
  if echo "$out" | grep -q "patch .* failed\|worktree failed"; then echo "$p: PATCH-FAILED"; echo "$out" | tail -3; continue; fi
  if [ $rc -ne 0 ]; then
    echo "$p: DETECTED"
    echo "$out" | grep -E "^\s+(evid|c[0-9]+|replay|nodegen).*\.go:[0-9]+:|violat|--- FAIL" | head -4 | cut -c1-600
  else
    echo "$p: MISSED"
  fi
done
