#!/bin/bash
# tools/seedimport2.sh Cxx : second seeding round (/tmp/seed2-Cxx/out: a,b,c) -> seeded/Cxx-c, Cxx-d, Cxx-e
p=$1
i=0
for v in a b c; do
  o=/tmp/seed2-$p/out
  t=$(echo c d e | cut -d' ' -f$((i+1))); i=$((i+1))
  [ -f $o/$v.patch.diff ] || continue
  d=/verif/seeded/$p-$t; mkdir -p $d
  cp $o/$v.patch.diff $d/patch.diff; cp $o/$v.demo_test.go.txt $d/demo_test.go.txt; cp $o/$v.meta.json $d/agent_meta.json
  echo "imported $d"
done
