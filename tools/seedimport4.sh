#!/bin/bash
# tools/seedimport4.sh Cxx : fourth seeding round (/tmp/seed4-Cxx/out: a) -> seeded/Cxx-h
p=$1
o=/tmp/seed4-$p/out
[ -f $o/a.patch.diff ] || { echo "no delivery for $p"; exit 1; }
d=/verif/seeded/$p-h; mkdir -p $d
cp $o/a.patch.diff $d/patch.diff; cp $o/a.demo_test.go.txt $d/demo_test.go.txt; cp $o/a.meta.json $d/agent_meta.json
echo "imported $d"
