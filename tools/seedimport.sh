#!/bin/bash
# tools/seedimport.sh Cxx : copy the deliverables of a seeding agent (/tmp/seed-Cxx/out) into seeded/Cxx-a, seeded/Cxx-b
p=$1
for v in a b; do
  o=/tmp/seed-$p/out
  [ -f $o/$v.patch.diff ] || continue
  d=/verif/seeded/$p-$v; mkdir -p $d
  cp $o/$v.patch.diff $d/patch.diff; cp $o/$v.demo_test.go.txt $d/demo_test.go.txt; cp $o/$v.meta.json $d/agent_meta.json
  echo "imported $d"
done
