#!/usr/bin/env python3
"""Write seeded/<id>/meta.json from the seeding agent's description (agent_meta.json), my own confirmation
(.work/seedconfirm/<id>.json, produced by tools/seedconfirm.sh) and the detection table below (filled in from
tools/seedrun.sh runs). Existing hand-written meta.json files (C01-C04) are left alone unless listed in DETECT."""
import json, os, sys

ROOT = os.path.dirname(os.path.dirname(os.path.abspath(__file__)))

# id -> (detected_by, first_run, note)
DETECT = {
    "C03-a": (["C12"], "MISSED by C03", "C03 drives submissions one at a time; the partial-lock release only shows under interleaving. C12 Part B (cooperative scheduler) finds it in the quick tier"),
    "C05-a": (["C05"], "DETECTED", "rejected block (two coinbases) followed by a valid confirmation: the reopened image knows the rejected block"),
    "C05-b": (["C05"], "DETECTED", "failed play after a conflicting pool transaction was undone: running node's pool differs from the reopened one"),
    "C06-a": (["C06"], "DETECTED", "crash image between the effects batch and the separate pointer put"),
    "C06-b": (["C06", "C04"], "MISSED by C06 and C01 (C04 only through a regression witness)", "needed (1) peer blocks that share a transaction across branches to be frequent (the re-used transactions are now drawn before the fresh ones) and (2) the ledger oracle to check the tx->block mapping of EVERY block transaction, not only coinbases (hx.CheckLedgerAgainstModel); then the crash image between the in-place put and the batch fails IsTxInTrunk"),
    "C09-a": (["C09"], "DETECTED", "event / contract transfer before a persisted key: committed version offset differs after a cold read"),
    "C09-b": (["C09"], "MISSED", "needed the mutant 'one write-set entry replaced by a duplicate of another' (added to c09Mutants)"),
    "C10-a": (["C10"], "DETECTED", "scan across a key deleted earlier in the same execution ends early"),
    "C10-b": (["C10"], "DETECTED", "put v1 then put the committed value back: read-your-writes broken"),
    "C13-a": (["C13"], "MISSED", "needed award decay in the generated genesis and a history-free award oracle (award recomputed by a fresh GenesisBlock per height, not by the running node's cache)"),
    "C13-b": (["C13"], "MISSED", "needed bulky pending transactions against a small max block size and the size-limit aware packing oracle (block = executable prefix-closed subset of the pool order)"),
    "C17-a": (["C17"], "MISSED", "needed walks that are refused half-way (irreversible-height crossing) followed by a reopen; the model keeps the maximum over every block ever applied"),
    "C17-b": (["C17"], "DETECTED", "replay on a lower branch lowers the irreversible height"),
    "C18-a": (["C18"], "DETECTED", "snapshot at an ancestor differs from the live read taken when it was the tip"),
    "C18-b": (["C18"], "MISSED", "needed a losing side block that carries pending transactions (op 'side-block-carrying-pending' in the C18 mix) followed by snapshot reads at heights >= that block's"),
    "C07-a": (["C07"], "DETECTED", "SubmitTx path admits a mutant whose signature does not verify"),
    "C07-b": (["C07"], "DETECTED", "duplicate account/address URI counted twice"),
    "C08-a": (["C08"], "DETECTED", "re-signed block with a foreign key accepted after a genuine block of the same proposer (the per-ledger cache is warm from earlier cases of the same process)"),
    "C08-b": (["C08"], "DETECTED", "body stripped to zero transactions accepted"),
    "C11-a": (["C11"], "DETECTED", "nested signer URI counted through the root's children"),
    "C11-b": (["C11"], "MISSED", "needed a contract whose contract->account mapping is only pending (steps deploy2 / change kind method2 in the acl-pipeline)"),
    "C12-a": (["C12"], "DETECTED", "refused submission leaves the keys it had taken locked: a still valid transaction is refused after quiescence"),
    "C12-b": (["C12"], "DETECTED", "read-modify-write keys only take the shared lock: Part A exclusion oracle and the state-level serialisability oracle"),
    "C14-a": (["C14"], "MISSED", "needed the entry class 'member address with ANOTHER member's key and signature' (memberkey); the verifier's key cache is warm from earlier certificates of the run"),
    "C14-b": (["C14"], "MISSED", "needed the path tdpos-term: checked block in the first slot of a term whose elected proposer set differs from the set in force for the certified view"),
    "C15-a": (["C15"], "DETECTED", "re-delivered orphan stored twice"),
    "C15-b": (["C15"], "DETECTED", "stale generic/locked/commit markers after an explicit rollback"),
    "C16-a": (["C16"], "MISSED", "needed the slot-length oracle (an entitled (term,pos,slot) lasts at most one period); distinct-slot counting alone does not see a slot 0 that is twice as long"),
    "C16-b": (["C16"], "MISSED", "needed side branches in the PoW stub ledger and the metamorphic oracle 'a node holding the candidate's ancestors as a side branch judges it like a node whose trunk is that branch'"),
    "C19-a": (["C19"], "DETECTED", "transfer rewrites the sender's lock"),
    "C19-b": (["C19"], "DETECTED", "second lock of one type burns tokens"),
    "C20-a": (["C20"], "DETECTED", "message refused for lack of subscribers is marked handled: retransmission after a late Register is dropped"),
    "C20-b": (["C20"], "DETECTED", "highly compressible payloads no longer round-trip"),
}


def main():
    for sid in sorted(os.listdir(os.path.join(ROOT, "seeded"))):
        d = os.path.join(ROOT, "seeded", sid)
        am = os.path.join(d, "agent_meta.json")
        if not os.path.exists(am) or sid not in DETECT:
            continue
        a = json.load(open(am))
        conf_path = os.path.join(ROOT, ".work", "seedconfirm", sid + ".json")
        meta_path = os.path.join(d, "meta.json")
        old = json.load(open(meta_path)) if os.path.exists(meta_path) else {}
        confirmed = old.get("confirmed_by_me")
        if os.path.exists(conf_path) and os.path.getsize(conf_path) > 0:
            c = json.load(open(conf_path))
            if "error" in c:
                print(sid, "NOT CONFIRMED:", c["error"])
                continue
            ok = c["demo_clean"].startswith("ok") and "FAIL" in c["demo_patched"] and not c["stable_pass_now_failing"]
            if not ok:
                print(sid, "NOT CONFIRMED:", c)
                continue
            confirmed = ("tools/seedconfirm.sh %s in a scratch worktree of /repo HEAD: demonstration passes on the clean tree (%s), "
                         "patch applies and the tree builds, demonstration FAILS on the patched tree (%s), and the WHOLE pinned suite run on "
                         "the patched tree (%d test results) still passes every test of BASELINE.stable_pass"
                         % (sid, c["demo_clean"].split("\t")[0].strip(), c["demo_patched"].strip(), c["suite_tests_seen"]))
        if not confirmed:
            print(sid, "no confirmation yet")
            continue
        det, first, note = DETECT[sid]
        meta = {
            "id": sid,
            "property": a.get("property", sid.split("-")[0]),
            "breaks": a.get("summary", old.get("breaks", "")),
            "needs_to_manifest": a.get("needs", old.get("needs_to_manifest", "")),
            "files": a.get("files", old.get("files", [])),
            "demo": "demo_test.go.txt (first line: where to place it and how to run it)",
            "confirmed_by_me": confirmed,
            "checks_run": "tools/seedrun.sh seeded/%s/patch.diff <checks> (quick tier, VERIF_SEED=1, harness copy pointed at the patched scratch worktree)" % sid,
            "detected_by": det,
            "first_run": first,
            "note": note,
        }
        json.dump(meta, open(meta_path, "w"), indent=1)
        print(sid, "meta written; detected by", det)


if __name__ == "__main__":
    main()
