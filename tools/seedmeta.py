#!/usr/bin/env python3
"""Write seeded/<id>/meta.json from the seeding agent's description (agent_meta.json), my own confirmation
(.work/seedconfirm/<id>.json, produced by tools/seedconfirm.sh) and the detection table below (filled in from
tools/seedrun.sh runs). Existing hand-written meta.json files (C01-C04) are left alone unless listed in DETECT."""
import json, os, sys

ROOT = os.path.dirname(os.path.dirname(os.path.abspath(__file__)))

# id -> (detected_by, first_run, note)
DETECT = {
    "C03-a": (["C12"], "MISSED by C03", "C03 drives submissions one at a time; the partial-lock release only shows under interleaving. C12 Part B (cooperative scheduler) finds it in the quick tier"),
    "C05-a": (["C05"], "DETECTED", "rejected block (two coinbases) followed by a valid confirmation: the reopened image knows the rejected block"),
    "C05-b": (["C05"], "DETECTED", "failed play after a conflicting pool transaction was undone: running node's pool differs from the reopened one"),
    "C06-a": (["C06"], "DETECTED", "crash image between the effects batch and the separate pointer put"),
    "C06-b": (["C06", "C04"], "MISSED by C06 and C01 (C04 only through a regression witness)", "needed (1) peer blocks that share a transaction across branches to be frequent (the re-used transactions are now drawn before the fresh ones) and (2) the ledger oracle to check the tx->block mapping of EVERY block transaction, not only coinbases (hx.CheckLedgerAgainstModel); then the crash image between the in-place put and the batch fails IsTxInTrunk"),
    "C09-a": (["C09"], "DETECTED", "event / contract transfer before a persisted key: committed version offset differs after a cold read"),
    "C09-b": (["C09"], "MISSED", "needed the mutant 'one write-set entry replaced by a duplicate of another' (added to c09Mutants)"),
    "C10-a": (["C10"], "DETECTED", "scan across a key deleted earlier in the same execution ends early"),
    "C10-b": (["C10"], "DETECTED", "put v1 then put the committed value back: read-your-writes broken"),
    "C13-a": (["C13"], "MISSED", "needed award decay in the generated genesis and a history-free award oracle (award recomputed by a fresh GenesisBlock per height, not by the running node's cache)"),
    "C13-b": (["C13"], "MISSED", "needed bulky pending transactions against a small max block size and the size-limit aware packing oracle (block = executable prefix-closed subset of the pool order)"),
    "C17-a": (["C17"], "MISSED", "needed walks that are refused half-way (irreversible-height crossing) followed by a reopen; the model keeps the maximum over every block ever applied"),
    "C17-b": (["C17"], "DETECTED", "replay on a lower branch lowers the irreversible height"),
    "C18-a": (["C18"], "DETECTED", "snapshot at an ancestor differs from the live read taken when it was the tip"),
    "C18-b": (["C18"], "MISSED", "needed a losing side block that carries pending transactions (op 'side-block-carrying-pending' in the C18 mix) followed by snapshot reads at heights >= that block's"),
    "C07-a": (["C07"], "DETECTED", "SubmitTx path admits a mutant whose signature does not verify"),
    "C07-b": (["C07"], "DETECTED", "duplicate account/address URI counted twice"),
    "C08-a": (["C08"], "DETECTED", "re-signed block with a foreign key accepted after a genuine block of the same proposer (the per-ledger cache is warm from earlier cases of the same process)"),
    "C08-b": (["C08"], "DETECTED", "body stripped to zero transactions accepted"),
    "C11-a": (["C11"], "DETECTED", "nested signer URI counted through the root's children"),
    "C11-b": (["C11"], "MISSED", "needed a contract whose contract->account mapping is only pending (steps deploy2 / change kind method2 in the acl-pipeline)"),
    "C12-a": (["C12"], "DETECTED", "refused submission leaves the keys it had taken locked: a still valid transaction is refused after quiescence"),
    "C12-b": (["C12"], "DETECTED", "read-modify-write keys only take the shared lock: Part A exclusion oracle and the state-level serialisability oracle"),
    "C14-a": (["C14"], "MISSED", "needed the entry class 'member address with ANOTHER member's key and signature' (memberkey); the verifier's key cache is warm from earlier certificates of the run"),
    "C14-b": (["C14"], "MISSED", "needed the path tdpos-term: checked block in the first slot of a term whose elected proposer set differs from the set in force for the certified view"),
    "C15-a": (["C15"], "DETECTED", "re-delivered orphan stored twice"),
    "C15-b": (["C15"], "DETECTED", "stale generic/locked/commit markers after an explicit rollback"),
    "C16-a": (["C16"], "MISSED", "needed the slot-length oracle (an entitled (term,pos,slot) lasts at most one period); distinct-slot counting alone does not see a slot 0 that is twice as long"),
    "C16-b": (["C16"], "MISSED", "needed side branches in the PoW stub ledger and the metamorphic oracle 'a node holding the candidate's ancestors as a side branch judges it like a node whose trunk is that branch'"),
    "C19-a": (["C19"], "DETECTED", "transfer rewrites the sender's lock"),
    "C19-b": (["C19"], "DETECTED", "second lock of one type burns tokens"),
    "C20-a": (["C20"], "DETECTED", "message refused for lack of subscribers is marked handled: retransmission after a late Register is dropped"),
    "C20-b": (["C20"], "DETECTED", "highly compressible payloads no longer round-trip"),
}

# ---- second round (three changes per property, ids -c -d -e) ----
DETECT.update({
    "C01-c": (["C01"], "DETECTED", "undone output loses its frozen height in the cache"),
    "C01-d": (["C01"], "DETECTED", "stale delete marker after undoing delete and create (same idea as C01-a)"),
    "C01-e": (["C01"], "DETECTED", "fees undone in a separate first pass: ghost output after the undo"),
    "C02-c": (["C02"], "DETECTED", "forward loop when undoing a block with an in-block spending chain"),
    "C02-e": (["C13"], "MISSED by C02", "the award of a height depends on the process's CalcAward cache history: C02's statement (total = sum of coinbase outputs) still holds on the producing node; the divergence between nodes is what C13's history-free award oracle reports (same idea as C13-a). C02 was not changed"),
    "C03-c": (["C03"], "DETECTED", "delete not stored in the per-block batch view"),
    "C03-d": (["C03"], "DETECTED", "only the first child of a pending parent gets an edge (same idea as C03-b); map-order dependent, rapid reports the failure as not reproducible"),
    "C03-e": (["C03"], "DETECTED", "confirmed-table record always re-pointed to the latest block carrying the tx"),
    "C04-c": (["C04"], "DETECTED", "batch Reset moved after Write (same idea as C04-b / C05-a)"),
    "C04-d": (["C04"], "DETECTED", "correctTxsBlockid reads the cached body"),
    "C04-e": (["C04"], "DETECTED", "truncation deletes tx records a surviving block still carries"),
    "C05-c": (["C05"], "DETECTED", "batch Reset moved after Write (same idea as C05-a)"),
    "C05-d": (["C05"], "DETECTED", "pool memory mirror changed before the batch commits (same idea as C05-b)"),
    "C05-e": (["C12"], "MISSED by C05", "a refused submission keeps the lock keys it took (same change as C12-a): only reachable with two submissions in flight; C05 drives one operation at a time, C12 Part B reports it in the quick tier. C05 was not changed"),
    "C06-c": (["C06"], "MISSED", "needed blocks of several MiB (the early flush triggers above 4 MiB): C06 now appends a ~4.8 MiB block (three bulky transfers) to 1 scenario in 12"),
    "C06-d": (["C06"], "DETECTED", "pool rebuild on open skips records of transactions already on the trunk"),
    "C06-e": (["C06"], "DETECTED", "utxo total written outside the block batch"),
    "C07-c": (["C07"], "DETECTED", "HDInfo moved out of the v3 signing digest"),
    "C07-d": (["C07"], "MISSED", "needed the forgery 'plain transfer, no contract request at all, victim's input merely DECLARED contract-spent' (forge/contract-claim-norequest)"),
    "C07-e": (["C07"], "DETECTED", "repeated signer URI counted twice (same idea as C07-b)"),
    "C08-c": (["C08"], "MISSED", "needed two-site body mutants: body altered AND the carried MerkleTree patched (variants tree-leaves, tree-stale-root); the independent-root oracle was already there"),
    "C08-d": (["C08"], "DETECTED", "quorum-certificate signature list de-duplicated while hashing the id"),
    "C08-e": (["C08"], "DETECTED", "proposer/key binding cached by key (same idea as C08-a)"),
    "C09-c": (["C09"], "DETECTED", "version offset shifts behind a $transient entry (same idea as C09-a)"),
    "C09-d": (["C09"], "MISSED", "needed the mutant 'somebody else's output put in FRONT of the contract's declared inputs and collected' (foreign-output-declared-contract-spent)"),
    "C09-e": (["C09"], "MISSED", "needed declared limits at the far negative end of int64 together with a removed fee output (resource-limit-negative-no-fee): with the fee output kept, 'fee - gas' overflows and the mutant is refused anyway"),
    "C10-c": (["C10"], "MISSED", "needed the backing state to change DURING one execution (a concurrent commit between a Get and a scan): op 'bg' overwrites a live backing key; keys already in the sandbox's read set keep the version seen (decided from the real read set), the replay-over-read-set oracle does the rest"),
    "C10-d": (["C10"], "DETECTED", "Get after Del of a live key returns the old value"),
    "C10-e": (["C10"], "DETECTED", "replay of transfers selects one input too many after an exact selection"),
    "C11-c": (["C11"], "DETECTED", "last URI component always inserted as a new leaf (same idea as C07-b)"),
    "C11-d": (["C11"], "DETECTED", "key-set validator counts a member whose node merely exists"),
    "C11-e": (["C11"], "DETECTED", "account rules cached in the manager; a lookup while a rule change is pending re-caches the old rule"),
    "C12-c": (["C12"], "DETECTED", "read-modify-write keys end with a shared lock (same idea as C12-b)"),
    "C12-d": (["C12"], "DETECTED", "unlock deferred after the early return (same change as C12-a)"),
    "C12-e": (["C12"], "DETECTED", "a failed selection unlocks keys another selector holds"),
    "C13-c": (["C13"], "DETECTED", "reader/overwriter test ignores the bucket"),
    "C13-d": (["C13"], "DETECTED", "packing skips an oversized transaction (same change as C13-b)"),
    "C13-e": (["C13"], "DETECTED", "award resumed from a rounded cache entry (same idea as C13-a)"),
    "C14-c": (["C14"], "DETECTED", "2f+1 quorum instead of n-f for n not of the form 3f+1"),
    "C14-d": (["C14"], "MISSED", "needed a verifier with HISTORY: the signature cache is keyed without the signed id, so a vote verified earlier for a sibling proposal counts for any id. The direct-path verifiers now first verify every key's (legitimate) vote for the other id (c14WarmUp); the existing 'wrongid' entries carry exactly those signatures"),
    "C14-e": (["C14"], "MISSED", "needed repeats that state the same public key in another JSON serialisation (entry field pub=1, every other repeat / repeat2 entry)"),
    "C15-c": (["C15"], "DETECTED", "orphan dropped from the duplicate filter when re-rooted (same idea as C15-a)"),
    "C15-d": (["C15"], "DETECTED", "markers cleared only when the rollback target has no parent"),
    "C15-e": (["C15"], "DETECTED", "pacemaker view thrown back by an old certificate"),
    "C16-c": (["C16"], "MISSED", "needed acceptance across a validator-set change: sub-check validator-change (tdpos: election reported by every snapshot, candidates at tip+1 and as sibling of the tip with next-term timestamps)"),
    "C16-d": (["C16"], "MISSED", "same sub-check, xpoa: validator set edited in block 3 to another SIZE, node still holding the initial set in memory"),
    "C16-e": (["C16"], "DETECTED", "PoW retarget window start looked up by trunk height (same change as C16-b)"),
    "C17-c": (["C17"], "DETECTED", "irreversible height lowered by a lower block (same idea as C17-b)"),
    "C17-d": (["C17"], "DETECTED", "meta published once after the walk loop (same idea as C17-a)"),
    "C17-e": (["C17"], "DETECTED", "PlayForMiner updates the irreversible height after the batch is written: lost at restart"),
    "C18-c": (["C18"], "DETECTED", "snapshot walk stops at a delete marker above the snapshot height"),
    "C18-d": (["C18"], "DETECTED", "re-packed writer keeps the orphaned block's id"),
    "C18-e": (["C18"], "DETECTED", "queryTx asks the ledger first (same change as C18-b)"),
    "C19-c": (["C19"], "DETECTED", "transfer rewrites the sender's lock (same change as C19-a)"),
    "C19-d": (["C19"], "DETECTED", "passed proposal unlocked twice"),
    "C19-e": ([], "MISSED", "NOT DETECTED, check not changed: the change makes the tdpos nomination lock the CANDIDATE's tokens instead of the nominator's. Every lock still changes only through Lock / UnLock calls on the account the caller names, supply is conserved and the transfer guard binds the recorded amounts - C19's statement says nothing about WHICH account a nomination has to lock (TDPoS business logic). The check drives the second lock type through a forwarder contract that issues the same Lock / UnLock calls, not through the tdpos nominate / revoke methods"),
    "C20-c": (["C20"], "DETECTED", "checksum not compared for message versions 1 and 2"),
    "C20-d": (["C20"], "MISSED", "needed a stricter reading of 'repeat': a message that differs from a handled one only in its sender must still reach a subscriber that filters on that sender (it cannot have got the content before); subscribers without sender filter stay tolerated either way"),
    "C20-e": (["C20"], "DETECTED", "chain filter ignored when a sender filter is set"),
})

# ---- first round, C01-C04 (confirmed by hand with tools/seedverify.sh before seedconfirm.sh existed) ----
DETECT.update({
    "C01-a": (["C01"], "DETECTED", "quick tier, seed 1: Walk to a valid block fails (stale delete marker makes a re-created key stale)"),
    "C01-b": (["C01", "C02"], "MISSED", "needed CheckState to call SelectUtxos for every address after every step (the stale cache entry is only visible through selection)"),
    "C02-a": (["C02"], "DETECTED", "pending fee-paying transaction confirmed by a peer block applied with Play"),
    "C02-b": (["C02", "C03"], "MISSED", "needed the double-spend family to re-cite outputs spent anywhere (not only by pending transactions) and the every-step SelectUtxos probe"),
    "C03-b": (["C03"], "DETECTED", "pool family P->{C1,C2} + conflicting peer block"),
    "C04-a": (["C04"], "DETECTED", "same tx in the old trunk and in the trunk-switching block"),
    "C04-b": (["C04"], "DETECTED", "a rejected (staged) block followed by any successful confirmation"),
})

# ---- third round (two changes per property, ids -f -g; prompt TEMPLATE3: helpers outside the anchored files, start-up /
# recovery code, second entries to a mechanism, multi-step sequences, non-determinism) ----
DETECT.update({
    "C01-f": (["C01"], "DETECTED", "pool graph keeps one child edge per pending parent: dependants survive the rollback of their parent"),
    "C01-g": (["C01"], "MISSED", "needed peer blocks whose first transaction lacks the read-set entry of a key it deletes (txmut dropread): only a block can deliver such a transaction, and only its later undo shows the damage"),
    "C02-f": (["C02"], "DETECTED", "pending transaction registered in the graph under its first input only (same family as C01-f)"),
    "C02-g": (["C02"], "DETECTED", "undoPayFee evicts the cache entry under the fee placeholder (same idea as C01-b)"),
    "C03-f": (["C03"], "DETECTED", "UtxoCache.remove looks in the Available view: a selected-then-spent output stays selectable"),
    "C03-g": (["C03"], "DETECTED", "start-up skips pending rows the ledger holds in a trunk block while their pending effects stay applied"),
    "C04-f": (["C04"], "DETECTED", "internal block lookups served from the full-block cache (stale InTrunk / next links)"),
    "C04-g": (["C04"], "DETECTED", "height index only written for a block without next link"),
    "C05-f": (["C05"], "DETECTED", "start-up drops pool rows of transactions confirmed on the trunk (same idea as C03-g)"),
    "C05-g": (["C05", "C04"], "MISSED", "needed truncations in the C05 mix (ledger.Truncate re-uses ConfirmBlock's batch without Reset: the last confirmed block's writes are replayed)"),
    "C06-f": (["C06"], "DETECTED", "re-pointed tx records written outside the ConfirmBlock batch"),
    "C06-g": (["C06"], "DETECTED", "miner path deletes packed pool records outside the block batch"),
    "C07-f": ([], "MISSED", "NOT DETECTED on the final tree. Walk skips ImmediateVerifyTx for block transactions whose id sits in the rolled-back pool. First run missed; I added peer blocks carrying a pending transaction with an altered body under its id (poolmut), which C02 / C03 then caught - and which showed that HEAD itself filed the forged body under the known id (fix 52dadae: VerifyBlock recomputes every txid). Since that fix the altered copy never reaches Walk through any path that verifies the block first (all callers do); a byte-identical pending transaction is still re-checked by xmodel.DoTx (read versions) and the utxo layer, so the remaining gap (signatures and contract re-execution of an unchanged transaction on another branch) shows no difference my generators reach (poolforce blocks with a stale pending transaction are refused with and without the change). The author's demonstration calls ConfirmBlock + Walk without VerifyBlock and still fails"),
    "C07-g": (["C07", "C09"], "MISSED", "needed the two-site forgery 'declare a foreign output as contract-spent input and collect it' with the foreign output placed before / behind the contract's own"),
    "C08-f": (["C08"], "MISSED", "needed the sync-path sub-check: mutated blocks delivered through the real ProcBlock / catch-up code at every position of the fetched batch (the first block of the batch is no longer verified)"),
    "C08-g": (["C08"], "MISSED", "same sub-check: a block id that passed verification once is trusted when a DIFFERENT body arrives under it"),
    "C09-f": (["C07"], "MISSED", "needed contract transfers paid from TWO outputs of the contract (the generators only let a contract transfer when it owned exactly one output) and the forgery 'second declared contract input replaced by a foreign output, change grown by the difference' (contract-claim-second in C07); C09's own histories still transfer from one output only"),
    "C09-g": ([], "MISSED", "NOT DETECTED on the final tree: same change as C07-f (see there)"),
    "C10-f": (["C09"], "MISSED by C10", "the version cache of the real XModel is below C10's backing reader (C10 drives the sandbox over an imitation of XModel); C09 catches it after I made every C09 history end with a replay on a fresh node (cold caches)"),
    "C10-g": ([], "MISSED", "NOT DETECTED, not built: the contract descriptor is read straight from the chain instead of through the execution's own reader; needs a non-kernel contract runtime (deploy / upgrade of native or wasm code inside one transaction), which this sandbox cannot build or run - the harness contracts are kernel contracts without descriptor"),
    "C11-f": (["C11"], "DETECTED", "tip snapshot served from the live table (sees pending ACL writes)"),
    "C11-g": (["C11"], "MISSED", "needed the re-admission oracle: after a walk / sync every transaction whose initiator account's ACL no longer authorises it on the new branch must not be back in the pool"),
    "C12-f": (["C12"], "MISSED", "needed SelectUtxosBySize as a request kind of the scheduler (hook 77d68f5 yields per scanned output): two selectors through different entries share an output"),
    "C12-g": (["C12"], "DETECTED", "UtxoCache.remove returns when the item is not Available (same idea as C02-b)"),
    "C13-f": (["C13"], "DETECTED", "rolled-back pending transactions keep their persisted row on the Walk path"),
    "C13-g": (["C13"], "DETECTED", "undoTxInternal evicts the cache under an un-prefixed key"),
    "C14-f": (["C14"], "MISSED", "needed the path xpoa-reorg: an xpoa instance that judged a block on a branch with a validator change and then follows a branch without it"),
    "C14-g": (["C14"], "MISSED", "needed the path smr-pruned: a proposal message judged by an smr whose commit rule has moved the root of the pending tree onto the certified proposal"),
    "C15-f": (["C15"], "MISSED", "needed confirmed blocks to enter through the real Smr.UpdateQcStatus (the wrapper called the tree directly)"),
    "C15-g": (["C15"], "MISSED", "needed the restart tree of the real InitQCTree over a box of (tip height, start height) stub ledgers"),
    "C16-f": (["C16"], "MISSED", "needed an election with equal ballots judged by two nodes twice: at most one producer per instant (who wins the tie is not asserted)"),
    "C16-g": (["C16"], "MISSED", "needed the producer's own path: CompeteMaster, then ProcessBeforeMiner for every timestamp of the surrounding terms"),
    "C17-f": (["C17"], "MISSED", "needed restarts after truncations in the C17 mix (the start-up 'repair' lowers a persisted height that is ahead of the truncated ledger)"),
    "C17-g": (["C17"], "MISSED", "needed the truncate operation to go through the real Miner.truncateForMiner (hook d2898a6)"),
    "C18-f": (["C18"], "DETECTED", "transaction above the fork point re-pointed instead of refused"),
    "C18-g": (["C18"], "DETECTED", "queryTx asks the confirmed table first (a pending re-write looks confirmed)"),
    "C19-f": (["C01"], "MISSED by C19", "verifyOutputs skipped for block transactions: nothing in C19's own model changes (governance calls keep their read sets); C01 catches it since peer blocks carry transactions with a dropped read-set entry (added for C01-g)"),
    "C19-g": (["C01", "C02", "C03"], "MISSED by C19", "pool graph loses read dependencies behind the first non-pending read: a pool-level defect, caught by the node machines (dependants survive the rollback of the transaction whose write they read); C19's single-node sequences never roll a pending governance call back"),
    "C20-f": (["C20"], "MISSED", "needed messages sent with the DEFAULT log id, built back to back: each is a message of its own and must be delivered (detection depends on two messages being built within one microsecond: rapid reports the failure, the replay file may not reproduce it)"),
    "C20-g": (["C20"], "MISSED", "needed the empty chain name in the message universe and repeats that are separately decoded copies"),
})

# ---- fourth round (one change per property, ids -h; prompt TEMPLATE4: interaction of two subsystems that are each
# correct in isolation, or a specific history - something failed half-way earlier, written then deleted, second
# occurrence) ----
DETECT.update({
    "C01-h": (["C01", "C05"], "DETECTED", "a refused block play has already dropped the conflicting pending transactions from the in-memory pool (their effects stay applied)"),
    "C02-h": (["C02"], "DETECTED", "pool graph keeps one child edge per pending parent (same idea as C01-f / C02-f)"),
    "C03-h": (["C03", "C01", "C05"], "DETECTED", "a refused block play no longer discards the cache view in which the conflicting pending transactions were already rolled back: a second spender is admitted"),
    "C04-h": (["C04"], "DETECTED", "Truncate deletes the tx records of removed blocks although a surviving side block carries the transaction"),
    "C05-h": (["C05"], "DETECTED", "ConfirmBlock resets its shared batch after a successful write only (a failed confirmation leaves residue for the next one)"),
    "C06-h": (["C06"], "MISSED", "needed (1) the restarted node's OWN recovery procedure on every crash image - the start of the real miner loop (Miner.Start until it asks the consensus for its turn) instead of a plain State.Walk - and (2) blocks mined under the node's own address through the real packBlock in the C06 mix: a truncation interrupted between the state walk and the ledger batch leaves 'ledger tip = own block on top of the state tip', which the shortcut plays with PlayForMiner"),
    "C07-h": (["C07"], "MISSED", "needed a delivery HISTORY at the real entry point: the child overtakes its parent (verified, refused for lack of its input), the parent arrives, then another body arrives under the child's id (Chain.SubmitTx remembered the id as verified)"),
    "C08-h": (["C08"], "DETECTED", "SavePendingBlock keeps an existing entry: a refused tampered copy shadows the genuine block of the same id (sync-path sub-check)"),
    "C09-h": (["C09", "C01"], "DETECTED", "UndoTx leaves the delete marker when it undoes a delete of a live key (same idea as C01-a)"),
    "C10-h": (["C01", "C02", "C03", "C18"], "MISSED by C10", "UndoTx removes the re-installed earlier delete marker when it undoes a second delete: an XModel defect below C10's backing reader; the node machines catch it (C01 at seeds 2 and 3, C02 / C03 / C18 at seed 1) because generated programs delete deleted keys and conflicting blocks evict them"),
    "C11-h": (["C18"], "MISSED by C11", "same change as C18-g (queryTx asks the confirmed table first): the tip snapshot takes a pending ACL write for confirmed once a losing side block carries the transaction; C11's pipeline has no side blocks carrying pending rule changes, C18 catches the snapshot"),
    "C12-h": (["C12"], "MISSED", "needed selections with excludeUnconfirmed (a third selector entry) and yield points inside SelectUtxos (hook e0cb9d0): the skipped-and-unlocked output is unlocked a second time when the selection gives up, dropping another selector's lock. Probabilistic in the quick tier even with the targeted request family 'selectors-exclude-gives-back' (final harness: VERIF_SEED 1 and 2 yes, 3 no)"),
    "C13-h": (["C01"], "MISSED by C13", "UndoTx puts an earlier delete marker back only when the undone write was a delete: an XModel undo defect; C13's pools never hold re-write + second delete of a deleted key across a walk, C01 catches it"),
    "C14-h": (["C14"], "MISSED", "needed the path block-known: the proposal is already a node of the pending tree (heard through a proposal message) when its certificate is checked"),
    "C15-h": (["C15"], "DETECTED", "commit clean-up rebuilds the orphan map from the orphan heads only: a nested orphan delivered again is stored twice"),
    "C16-h": (["C16"], "MISSED", "needed the pluggable-consensus layer: upgrade proposals executed through the registered kernel method, and the metamorphic oracle 'a proposal the method refused changes neither any verdict nor the running consensus'"),
    "C17-h": (["C17"], "DETECTED", "multi-block walk publishes the in-memory meta once at the end: a walk refused half-way leaves the raised height on disk only"),
    "C18-h": (["C18", "C05", "C06"], "DETECTED", "dependants rolled back by a block play keep their row in the unconfirmed table"),
    "C19-h": (["C09"], "MISSED by C19", "verifyOutputs compares bucket+key without separator: needs a HAND-MADE read set (governance calls assembled by pre-execution are unaffected); C09 catches it with the mutant 'read entry moved across the bucket / key boundary' (added for this change) and through a regression witness"),
    "C20-h": (["C20"], "MISSED", "needed handler subscribers that decode the request with p2p.Unmarshal like the engine's handlers (Decompress rewrote the shared message in place: the de-duplication key computed after the handlers differs from the one computed before)"),
})


# ---- fifth round (one change per property, ids -i; prompt TEMPLATE5: a rarely exercised feature or input class that the
# quantifier includes - boundary values, separator bytes, several fee outputs, negative weights, permuted lists ...) ----
DETECT.update({
    "C01-i": (["C01", "C02"], "MISSED", "needed VALID blocks whose award transaction has two outputs (peer op cbin 4: HEAD's award rule reads output 0 only) that are later undone by a walk; 1 valid peer block in 8 now carries such an award"),
    "C02-i": (["C02", "C01"], "MISSED", "needed transactions with TWO fee outputs (genTxSpec: 1 fee-paying transfer in 4); conservation on the raw table then fails in the block that confirms one"),
    "C03-i": (["C03", "C01"], "MISSED", "needed a pending transaction that read a NEVER-written key (cites no version) without writing it, and a block on the state pointer that creates exactly that key: too rare by chance, now a directed draw of genPeerOn (every other block while such a reader is pending)"),
    "C04-i": (["C04"], "DETECTED", "GetBranchInfo compares decimal heights as strings: truncation from a two-digit height to a one-digit target leaves the blocks above"),
    "C05-i": (["C05"], "MISSED", "needed a failed FIRST play of the root block followed by a repeated play on the same State object (NodeOpts.GenesisFault, 1 C05 history in 6; the replayer checks the state right after set-up)"),
    "C06-i": (["C06", "C05"], "DETECTED", "pool records of dependants evicted through the recursion stay on disk: reopened pool holds a transaction whose input never existed"),
    "C07-i": (["C11"], "MISSED by C07", "the change sits in the AK-set validator of the permission package: C11's exhaustive evaluator box (key sets x signer lists with inner / failed nodes) reports it in the quick tier. C07's account scenarios use threshold rules; C07 was not changed"),
    "C08-i": (["C08"], "DETECTED", "certificate fields of a block whose justify has no vote list are left out of the id"),
    "C09-i": (["C09"], "DETECTED", "verifyOutputs looks read entries up under bucket+key without the separator (same family as the C09 mutant that moves a read entry across the bucket / key boundary)"),
    "C10-i": (["C10"], "MISSED", "needed SEVERAL buckets whose names extend one another with a byte below the '/' separator and scans with a nil / empty start key: second C10 check over drawn bucket families (c10GenFamily), oracle unchanged"),
    "C11-i": (["C11"], "MISSED", "negative weights were only in the thorough box: quick now has a negative-weight box of its own (2-3 keys, weights {-10,-4,6,10}/10, accept 5 / 10), where a prefix of the signer list reaches the threshold the whole member set misses"),
    "C12-i": (["C12"], "MISSED", "needed a CHILD submitted while its parent is in flight (all concurrent requests used to be assembled against one state): family parent+children - parent pays payment / fee / change in a drawn order, two rival children spend one of its outputs - and a half-directed schedule that parks the parent at a drawn protocol point while a child runs"),
    "C13-i": (["C13"], "DETECTED", "no packing-order edge from the readers of a never-written key to its creator"),
    "C14-i": (["C14"], "MISSED", "the verifying node was always an outsider key: every boundary certificate is now judged a second time by a verifier that IS the member under whose address the first useless entry is filed (c14Cert.Local)"),
    "C15-i": (["C15"], "DETECTED", "a commit that prunes the branch holding HighQC resets HighQC to the new root (certified view decreases)"),
    "C16-i": (["C16"], "MISSED", "needed validator-set changes that only PERMUTE the list, followed by the producer's own path after the change is in force: sub-check validator-reorder (props/c16_reorder_test.go) - one long-running node per member asked CompeteMaster at every tip height, compared with the list in force and with CheckMinerMatch"),
    "C17-i": (["C17"], "DETECTED", "hoisted irreversibility check compares with < : a fork exactly at irreversible height - 1 undoes the irreversible block"),
    "C18-i": (["C18"], "DETECTED", "undoing a pending re-create after a pending delete loses the delete marker: snapshots of every height read the key as never written"),
    "C19-i": (["C19"], "MISSED", "needed account names that contain the key separator '_' and have another account of the universe as prefix (1 sequence in 5 over a widened universe incl. a contract account XC...@my_chain); the existing oracle (locks change only for the account the step locked / unlocked; nothing negative) does the rest"),
    "C20-i": (["C20"], "DETECTED", "response-type messages skip the repeat filter: a repeated *_RES message is delivered again"),
})


# ---- sixth round (12 properties, ids -j; prompt TEMPLATE6: damage that only shows through a rarely consulted observable
# or under a non-default configuration) ----
DETECT.update({
    "C02-j": (["C02", "C01"], "DETECTED", "coinbase total accumulated in place in the first output's amount: the cache entry of the first genesis / award output holds the sum of all outputs (selection offers it, a spend of it is admitted)"),
    "C04-j": (["C04", "C06"], "DETECTED", "a side branch growing below the trunk keeps its inner blocks in the branch-tip table"),
    "C05-j": (["C17"], "MISSED by C05", "a multi-block walk that fails at a later block leaves the in-memory irreversible height behind the persisted one; needs a slide window and such a walk after the height moved: C17's mix (windows, walks into invalid blocks) reports it in the quick tier. C05 now also draws a window (1 history in 4) but rarely builds that walk in 300 histories"),
    "C06-j": (["C06"], "MISSED", "needed a slide window in the crash scenarios and a bound on the PERSISTED irreversible height of every image: never below the value before the in-flight operation, never above the value after it, never ahead of the blocks the image's state has applied (hx.CheckCrashImage)"),
    "C07-j": (["C11"], "MISSED by C07 and C11", "threshold comparison rounded to a 0.01 grid; all weights of the evaluator box were tenths. C11 now also enumerates weights {4,333,334,996}/1000 with accept values {667,670,1000}/1000 (c11Rule.Den). C07 was not changed (the threshold arithmetic is C11's part of the pipeline)"),
    "C08-j": (["C08"], "MISSED", "needed (1) the verifying node's core count as a drawn input (ledger.NumCPU in {1,2,3,4} for half of the blocks: bodies longer than the core count and not a multiple of it), (2) a body altered under its unchanged txid at EVERY position, and (3) the oracle that VerifyBlock refuses such a body (until now only 'MakeTransactionID != txid' was asserted for these mutants - a leftover from before fix 52dadae)"),
    "C09-j": (["C09"], "MISSED", "needed disk / xfee gas rates unlike each other (drawn from {1,3,7,100}) and an independent gas figure: the gas a pre-execution reports is recomputed resource by resource from the resource use it reports (PreExec and verification agree with each other under the change)"),
    "C13-j": (["C13", "C17"], "MISSED by C13", "PlayForMiner no longer publishes the staged meta unless the block has a timer transaction: only the producer's in-memory irreversible height is stale. C17 reported it at once; C13 ran with window 0 only and now draws a window for half of its histories (CheckState compares the height after every minereal)"),
    "C15-j": (["C15"], "DETECTED", "CommitQC keeps its old value when the three-chain has a view gap: the commit marker is not the successive ancestor"),
    "C17-j": (["C17"], "DETECTED", "NewMeta clones the pending copy before the persisted irreversible height is loaded: after a restart the first non-raising publication resets the height to 0"),
    "C18-j": ([], "MISSED", "NOT DETECTED: the change is dead code unless the package-level switch ledger.DisableTxDedup is true, and nothing in the repository (no configuration loader, no caller) ever sets it; the checks run the ledger as its own loaders configure it. With the switch on, HEAD itself no longer refuses a trunk block that repeats a confirmed transaction, which the C04 / C18 models treat as refused - flipping it inside the harness would need a second model of the duplicate rule"),
    "C20-j": (["C20"], "DETECTED", "per-subscriber goroutine captures the loop variable: one subscriber gets every delivery, filtered-out subscribers can get one"),
})

# ---- seventh round (12 properties, ids -k; prompt TEMPLATE7: accumulation / capacity, aliasing, error paths) ----
DETECT.update({
    "C01-k": (["C01", "C02"], "MISSED", "needed outputs whose amount is an exact non-zero multiple of 2^64 that are later undone: C01 now runs 2 histories in 3 with genesis amounts beyond 64 bit (as C02 did) and genTxSpec draws output amounts at machine-word boundaries (2^31, 2^32, 2^63, 2^64, the largest available multiple of 2^64)"),
    "C03-k": (["C03"], "DETECTED", "frozen height of an output that has left the output cache read as 0: a frozen output is spendable, a thawed one refused (detected because the capacity of the output cache had become a drawn input - NodeOpts.UtxoCache 1-4 - earlier in this round, before the change was delivered; with the default capacity of 1000 no generated history evicts anything)"),
    "C04-k": (["C04"], "DETECTED", "truncation keeps the removed blocks' headers in the header cache: a block on a truncated parent is stored"),
    "C06-k": (["C06", "C04", "C05"], "MISSED by C06 (C04 and C05 report it at once)", "needed REFUSED confirmations inside the crash scenarios: 1 operation in 7 of the C06 mix is now an adversarial peer block (two award transactions, wrong award, unknown parent, forged award, unsigned transaction, carried tree with other leaves); the image after the next accepted block then holds the refused block"),
    "C10-k": (["C10"], "DETECTED", "RWSet() memoised while the tree of cached keys does not grow: an overwrite / delete of an already written key after an intermediate RWSet() is missing from the final write set"),
    "C11-k": (["C11"], "MISSED", "needed signer lists with 8 or more distinct names below one node of the permission tree: new sub-check acl-wide-lists (rapid: lists of up to 40 URIs, up to 24 names below one node - members, outsiders, nested-account paths, foreign paths, repeats at any distance - rules with up to 12 members, weights in quarters; same reference evaluator and metamorphic relations as the exhaustive box)"),
    "C12-k": (["C12"], "DETECTED", "a refused TryLock gives its keys back itself and still returns them: the caller's deferred Unlock releases another holder's entry (Part A: shared and exclusive holder of one key)"),
    "C13-k": (["C13"], "DETECTED", "PlayForMiner drops the whole in-memory pool when the block has as many transactions as the pool had at packing time: the one transaction that did not fit disappears from the pool but not from the state (the next block is not replayable)"),
    "C14-k": (["C14"], "DETECTED", "CheckProposal counts signers in a buffer kept on the verifier and only truncated on the non-error path: members left over from a rejected certificate count towards the next one (reported as 'flaky' by rapid - the verdict depends on the verifier's history - with the first failing certificate as replay file)"),
    "C16-k": (["C16"], "DETECTED", "SetCompact memoises and returns the shared big.Int: the retarget computation scales the memo entry in place, later blocks with the old bits are judged against a drifted target"),
    "C19-k": (["C19"], "MISSED", "needed vote amounts that are decorated decimals (leading / trailing blanks, tab, newline, sign, leading zeros): 1 vote in 6 and 4 transfer candidates; the model records what a vote really locked, so the release of more than that is reported (negative lock)"),
    "C02-k": (["C02"], "DETECTED", "the remembered outputs of an open batch (fix a2dd9ce) are only forgotten on the success path: an output of a refused block is spendable until the next play"),
    "C05-k": (["C05"], "DETECTED", "read-set check moved behind the utxo loops: a submission refused for a stale read has already shifted the cached balances (running node differs from the reopened image)"),
    "C07-k": (["C07"], "MISSED", "needed string fields longer than 256 bytes: 1 base in 3 now has a nonce of 256-700 bytes (hx.TxSpec.NoncePad); the mutator already changes the LAST byte of every string field"),
    "C08-k": (["C08"], "MISSED", "needed a verifying ledger that already holds the block's transactions: 1 block in 3 is judged after a sibling block of another proposer with the same transactions was confirmed (c08Shape.Known)"),
    "C09-k": (["C09"], "MISSED", "needed three or more contract-originated transfers in ONE transaction: the contract is now and then funded with 3-5 equal outputs and a program then transfers each of them (whichever output a selection takes first, all are consumed)"),
    "C15-k": (["C15"], "DETECTED", "adoptOrphans hands its reused scratch slice to the adopting node: the second adoption on a node overwrites the first adopter's children (node reachable twice)"),
    "C17-k": (["C17"], "MISSED", "first missed by the quick tier at seeds 1-3 (the thorough tier caught it after 565 histories of one shard); needed the conjunction 'slide window > 0, a multi-block walk that applies a height-raising block and is aborted by a later invalid block, then an undoing walk' as a DIRECTED sequence of C17's mix (1 step in 12 on a windowed chain: valid block V on the tip, forged-award block I on V, Walk(I), walk back to the pointer's parent); CheckState's comparison of the irreversible height then fails after 9 histories"),
    "C18-k": (["C18"], "MISSED", "needed more than 255 later writers of one key between a snapshot block and the key's newest version - histories of 30 steps write a key a dozen times at most: new sub-check long-version-chain (a key written once, a snapshot block, then ONE peer block with 258-300 self-payments that each rewrite the key; every ancestor snapshot compared with the model)"),
    "C20-k": (["C20"], "MISSED", "needed more than 4096 distinct messages handled by ONE dispatcher inside the de-duplication window: new sub-check dispatch-traffic (4 500 - 9 000 distinct messages to 1-3 subscribers, every message dispatched a second time 0-400 messages later, exactly-once delivery; a repeat is only judged when it was dispatched less than 1 s after the first copy)"),
})


def main():
    for sid in sorted(os.listdir(os.path.join(ROOT, "seeded"))):
        d = os.path.join(ROOT, "seeded", sid)
        am = os.path.join(d, "agent_meta.json")
        if not os.path.exists(am) or sid not in DETECT:
            continue
        a = json.load(open(am))
        conf_path = os.path.join(ROOT, ".work", "seedconfirm", sid + ".json")
        meta_path = os.path.join(d, "meta.json")
        old = json.load(open(meta_path)) if os.path.exists(meta_path) else {}
        confirmed = old.get("confirmed_by_me")
        if os.path.exists(conf_path) and os.path.getsize(conf_path) > 0:
            c = json.load(open(conf_path))
            if "error" in c:
                print(sid, "NOT CONFIRMED:", c["error"])
                continue
            ok = c["demo_clean"].startswith("ok") and "FAIL" in c["demo_patched"] and not c["stable_pass_now_failing"]
            if not ok:
                print(sid, "NOT CONFIRMED:", c)
                continue
            confirmed = ("tools/seedconfirm.sh %s in a scratch worktree of /repo HEAD: demonstration passes on the clean tree (%s), "
                         "patch applies and the tree builds, demonstration FAILS on the patched tree (%s), and the WHOLE pinned suite run on "
                         "the patched tree (%d test results) still passes every test of BASELINE.stable_pass"
                         % (sid, c["demo_clean"].split("\t")[0].strip(), c["demo_patched"].strip(), c["suite_tests_seen"]))
        if not confirmed:
            print(sid, "no confirmation yet")
            continue
        det, first, note = DETECT[sid]
        meta = {
            "id": sid,
            "property": a.get("property", sid.split("-")[0]),
            "breaks": a.get("summary", old.get("breaks", "")),
            "needs_to_manifest": a.get("needs", old.get("needs_to_manifest", "")),
            "files": a.get("files", old.get("files", [])),
            "demo": "demo_test.go.txt (first line: where to place it and how to run it)",
            "confirmed_by_me": confirmed,
            "checks_run": "tools/seedrun.sh seeded/%s/patch.diff <checks> (quick tier, VERIF_SEED=1, harness copy pointed at the patched scratch worktree)" % sid,
            "detected_by": det,
            "first_run": first,
            "note": note,
        }
        json.dump(meta, open(meta_path, "w"), indent=1)
        print(sid, "meta written; detected by", det)


if __name__ == "__main__":
    main()
