#!/bin/bash
# Confirm a seeded change myself in a scratch worktree:
#   tools/seedverify.sh <patch.diff> <demo_test.go(.txt)> <package dir relative to repo> <test regex> [extra test pkgs...]
# 1. clean tree: demo passes   2. patched tree: builds, demo FAILS   3. patched tree: existing tests of the given packages pass
patch=$(readlink -f "$1"); demo=$(readlink -f "$2"); pkg=$3; rx=$4; shift 4
wt=/tmp/sv-$$/wt
mkdir -p /tmp/sv-$$
git -C /repo worktree add --detach $wt HEAD >/dev/null 2>&1 || exit 2
export GOFLAGS=-mod=mod GOPROXY=off GOSUMDB=off GOTOOLCHAIN=local
cp "$demo" $wt/$pkg/zz_seed_demo_test.go
cd $wt
echo "== clean tree: demo"; go test -mod=mod -vet=off -count=1 -run "$rx" ./$pkg 2>&1 | grep -E "^(--- |ok|FAIL|panic)" | head -5
git apply "$patch" || { echo "PATCH DOES NOT APPLY"; cd /; git -C /repo worktree remove --force $wt; rm -rf /tmp/sv-$$; exit 2; }
echo "== patched tree: build"; go build ./... 2>&1 | tail -3
echo "== patched tree: demo (must fail)"; go test -mod=mod -vet=off -count=1 -run "$rx" ./$pkg 2>&1 | grep -E "^(--- |ok|FAIL|panic)" | head -5
rm -f $wt/$pkg/zz_seed_demo_test.go
echo "== patched tree: existing tests"; go test -mod=mod -vet=off -count=1 ./$pkg "$@" 2>&1 | grep -E "^(--- FAIL|FAIL|ok|panic)" | head -20
cd /; git -C /repo worktree remove --force $wt; rm -rf /tmp/sv-$$
