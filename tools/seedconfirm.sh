#!/bin/bash
# Confirm a seeded change against the WHOLE pinned test suite in a scratch worktree of /repo HEAD.
#   tools/seedconfirm.sh <seed id>     (reads seeded/<id>/{patch.diff,demo_test.go.txt,agent_meta.json})
# Prints one JSON line: demo on clean tree, build, demo on patched tree, stable-pass tests that fail with the patch.
id=$1
d=/verif/seeded/$id
pkg=$(python3 -c "import json;print(json.load(open('$d/agent_meta.json'))['demo_pkg'])")
rx=$(python3 -c "import json;print(json.load(open('$d/agent_meta.json'))['demo_test'])")
wt=/tmp/sc-$$/wt
mkdir -p /tmp/sc-$$
git -C /repo worktree add --detach $wt HEAD >/dev/null 2>&1 || exit 2
export GOFLAGS=-mod=mod GOPROXY=off GOSUMDB=off GOTOOLCHAIN=local
cp $d/demo_test.go.txt $wt/$pkg/zz_seed_demo_test.go
cd $wt
clean=$(go test -mod=mod -vet=off -count=1 -run "^$rx" ./$pkg 2>&1 | grep -E "^(ok|FAIL|---)" | head -1)
if ! git apply $d/patch.diff; then echo "{\"id\":\"$id\",\"error\":\"patch does not apply\"}"; cd /; git -C /repo worktree remove --force $wt; rm -rf /tmp/sc-$$; exit 2; fi
build=$(go build ./... 2>&1 | tail -1)
patched=$(go test -mod=mod -vet=off -count=1 -run "^$rx" ./$pkg 2>&1 | grep -E "^(ok|FAIL|---)" | head -1)
rm -f $wt/$pkg/zz_seed_demo_test.go
go test -mod=mod -json -vet=off -count=1 -timeout 25m ./... > /tmp/sc-$$/suite.json 2>/dev/null
python3 - "$id" "$clean" "$build" "$patched" /tmp/sc-$$/suite.json <<'PY'
import json,sys,ast
id,clean,build,patched,f=sys.argv[1:]
base=json.load(open('/root/.vp/BASELINE.json'))
stable=base['stable_pass']
if isinstance(stable,str): stable=ast.literal_eval(stable)
res={}
for line in open(f):
    try: e=json.loads(line)
    except Exception: continue
    if e.get('Test') and e.get('Action') in('pass','fail','skip'):
        res[e['Package']+'::'+e['Test']]=e['Action']
bad=[t for t in stable if res.get(t)!='pass']
# a stable-pass test that fails in the full run is re-run alone (p2p tests use fixed ports and start-up timing):
# it only counts as failing when it fails 3 times out of 3 on the patched tree
import subprocess,os
still=[]
for t in bad:
    pkg,name=t.split('::')
    rel='./'+pkg.split('github.com/xuperchain/xupercore/')[1]
    ok=False
    for i in range(3):
        r=subprocess.run(['go','test','-mod=mod','-vet=off','-count=1','-run','^'+name+'$',rel],cwd=os.getcwd(),capture_output=True,text=True)
        if r.returncode==0:
            ok=True; break
    if not ok: still.append(t)
retried=[t for t in bad if t not in still]
bad=still
print(json.dumps({"id":id,"demo_clean":clean,"build":build,"demo_patched":patched,"suite_tests_seen":len(res),"stable_pass_now_failing":bad,"failed_in_full_run_but_pass_alone":retried}))
PY
cd /; git -C /repo worktree remove --force $wt; rm -rf /tmp/sc-$$
