#!/bin/bash
# tools/seedimport5.sh Cxx : fifth seeding round (/tmp/seed5-Cxx/out: a) -> seeded/Cxx-i
p=$1
o=/tmp/seed5-$p/out
[ -f $o/a.patch.diff ] || { echo "no delivery for $p"; exit 1; }
d=/verif/seeded/$p-i; mkdir -p $d
cp $o/a.patch.diff $d/patch.diff; cp $o/a.demo_test.go.txt $d/demo_test.go.txt; cp $o/a.meta.json $d/agent_meta.json
echo "imported $d"
