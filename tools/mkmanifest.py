#!/usr/bin/env python3
"""Regenerates /verif/MANIFEST.json from the claim table below (kept next to the code so that the
manifest never drifts from what is built)."""
import json, subprocess

T_MODEL = "stateful model-based property testing (rapid) against a reference model, shrunk replay files"
CLAIMS = {
 "C01": dict(level="exploration", technique=T_MODEL + "; differential against a fresh node replaying genesis..B",
   text="Generated node histories (pool transactions incl. contract programs, own blocks, peer blocks on any stored block, sync, walks to any stored block, PlayAndRepost, reopen; fork skeletons make deep cross-fork walks frequent). After every step every state observable is compared with an independent reference model and, after walks that undo and at the end, with a fresh node that replays genesis..B (the statement's own definition). Exploration: the property quantifies over unbounded histories; thousands of short ones are sampled and failures shrink to short operation lists.",
   note="Trusts goleveldb-on-MemStorage = LevelDB semantics, the deterministic ECDSA signer (verification by the real code) and the 150-line model; bounded to <= ~30 steps, 7 addresses, 4 keys; PlayAndRepost of a valid block that conflicts with pending writes may fail (no property promises it), it must only leave no trace."),
 "C02": dict(level="exploration", technique=T_MODEL + "; invariant sum(U)+pending fees = total = sum of coinbase outputs; adversarial candidate transactions and blocks",
   text="The C01 machine with adversarial candidates mixed in (unbalanced outputs, duplicate input, wrong cited amount, frozen input, coinbase flag, leading-zero encodings, double spends, wrong award, two coinbases). The conservation invariant and balance = sum of outputs are evaluated after every step on the raw UTXO table; every candidate the model refuses must be refused by the node.",
   note="As C01. Amount encodings beyond 64 bit are covered only through the model's big-int arithmetic on 10^6-scale genesis amounts (see DESIGN.md)."),
 "C03": dict(level="exploration", technique=T_MODEL + "; soundness + completeness oracle on conflict families derived from the model",
   text="The C01 machine plus conflict families: candidates assembled ignoring pending transactions or against older blocks, re-submissions, double spends, peer blocks re-including confirmed transactions or built on an older state. A candidate with a non-current input must be refused (pool and block path), one whose inputs are all current must be admitted; the admitted set equals the model after every step.",
   note="As C01; 'current' is judged by the model = chain state at the pointer plus pending transactions."),
 "C04": dict(level="exploration", technique=T_MODEL,
   text="Model-based stateful test of the ledger alone: confirmations on any stored block (valid, two-coinbase, unknown-parent, transactions shared across branches), caller-level resubmissions, truncations and reopens; after every step every query named in the statement is compared with an independent block-tree model.",
   note="Trusts goleveldb-on-MemStorage; blocks reach ConfirmBlock after their parent and never twice (as miner.trySyncBlock guarantees); <= 30 steps, 6 shared transaction labels; one known finding excluded by shape (see known_findings.json)."),
 "C05": dict(level="fault_enumeration", technique=T_MODEL + "; fault injection (n-th storage write fails) and failing operations at every stage; differential against a second node opened on the reconstructed disk image after every step",
   text="The C01 machine with rejected blocks (unknown / rejected parent, two coinbases, duplicated transaction, transactions built on an older state so that a later transaction of the block fails), refused transactions, follow-ups that depend on failed operations, and injected storage write errors. After every step the unchanged model must equal the running node and a second node opened on the disk image must answer every ledger / state query identically.",
   note="An operation hit by an injected write error may report anything; afterwards memory must equal disk and the model is reconciled from the persisted pointer and pool. Write errors are injected at the kvdb interface (a failed write is not applied at all)."),
 "C06": dict(level="fault_enumeration", technique="crash-point enumeration over the recorded storage write log of generated histories (every prefix / all prefixes inside multi-write operations), each image opened by the real code and compared with the reference model; restart walk differential",
   text="A generated history is run once recording the ordered write log of both databases; every prefix (quick: all prefixes strictly inside multi-write operations, others sampled; thorough: all) is a crash image on which ledger and state are opened by the real code and checked with the C04 / C01 / C02 oracles, and Walk(ledger tip) must reach the uninterrupted run's state.",
   note="Trusts LevelDB batch atomicity and that a crash loses a suffix of the write sequence; write granularity is the kvdb interface (puts, deletes, batches)."),
 "C07": dict(level="exploration", technique="schema-walking (protobuf reflection) single-field mutation of accepted transactions in all forms + signature / signer mutations + forged-spend candidates, against the real VerifyTx / SubmitTx; digest injectivity registry",
   text="Valid transactions in every form (v1-v3, AK, multi-signer, account initiator, account-owned input, aggregated XuperSign, transfers and contract calls incl. contract-spent inputs) are built on a real node; every single-field mutation reachable by walking the message schema, every signature corruption / swap / replay / re-signing and forged spends of outputs whose owner never signs are tried with the stale and the recomputed txid: a mutant of a covered field must change the digest and be rejected; a reference model of which signature slots the verifier actually needs decides signature-slot mutants.",
   note="Covered set fixed from the statement and checked against encode.go / txhash.go; multi-field collisions of the legacy v1/v2 digest, semantically null re-encodings and signature malleability that keeps the signature valid (trailing DER byte, redundant slots) are not asserted; one known finding (rogue-key attack on the aggregated multi-signature) excluded by shape."),
 "C08": dict(level="exploration", technique="property-based generation of node-formatted blocks + deterministic enumeration of every single mutation of header / body / signature; differential against an independent merkle implementation",
   text="Blocks formatted by a real ledger (0..9 transactions, with / without justify, failed-tx map, PoW bits, all ring keys) must verify; each of ~160 single mutations per block (every hashed header field with stale and recomputed id, body add / drop / dup / swap / replace / alter, signature and key variants) must be rejected by VerifyBlock - or, for a transaction altered under an unchanged txid, by the per-transaction id check; the merkle root is compared with an independent implementation for counts 1..33.",
   note="Fields the id does not claim to cover (Height, MerkleTree inner nodes, InTrunk, NextHash, failed-tx keys, non-positive TargetBits) and consistent re-signing by another proposer are not required to be rejected; 0-transaction blocks are not asserted (real blocks always carry the award)."),
 "C09": dict(level="exploration", technique=T_MODEL + "; round-trip through the real Chain.PreExec -> client assembly -> Chain.SubmitTx; re-signed single mutations of the assembled transaction must be refused",
   text="Generated contract programs over all prior states are sent through the real pipeline (Chain.PreExec on live state, assembly exactly as a client does, SubmitTx); before the original is submitted every re-signed mutant whose rejection the statement demands (stale read, changed / added / dropped write, changed program, lowered limit, fee below gas, redirected or lowered contract transfer, changed call amount) must be refused without trace; committing the original changes exactly its write set and outputs (model comparison after every step); a failing program changes nothing.",
   note="As C01; contract-originated transfers only when the contract owns exactly one output (deterministic replay); adding an unused read or permuting the write set is not required to be rejected."),
 "C10": dict(level="exploration", technique="property-based testing (rapid) of operation sequences against an overlay-map model + round-trip through the verifier's replay (XMReaderFromRWSet)",
   text="Generated Get/Put/Del/Select/Transfer sequences on the real sandbox over generated backing states; every result is compared with an overlay-map model, the flushed read/write set with the statement's three rules, and the same calls are replayed over the read set alone (the verifier's situation) demanding identical results and write set.",
   note="The backing reader imitates xmodel.XModel (verified against the real one by a probe); nil end keys only where XModel and MemXModel agree; no writes while an iterator is open."),
 "C11": dict(level="exploration", technique="exhaustive enumeration of (rule, signer list) pairs against a reference evaluator written from the statement + metamorphic relations (monotone, permutation / duplication invariant); model-based pipeline test on a real node",
   text="Part 1: every ordered signer list of length <= 3 (thorough <= 4) over 11 URI shapes against thousands of rule points (threshold with weights, key sets, nested account, method rules) through the real IdentifyAccount / CheckContractMethodPerm, compared with a reference evaluator, plus monotonicity and permutation / duplication invariance on the code alone. Part 2: on a real node accounts are created through $acl, rules changed and account funds spent with generated signer sets while another rule is pending; a guarded transaction is accepted exactly when the reference evaluator is satisfied under the rule of the confirmed chain.",
   note="Signer = last URI component (what verifySignatures verifies); empty key sets, URIs ending in an account, float-order dependent rule points and the XuperSign path are excluded."),
 "C12": dict(level="exploration", technique="harness-owned cooperative deterministic scheduler over yield hooks in the real lock protocol (rapid draws the schedule: uniform, PCT-style, coarse); exhaustive schedule enumeration for small boxes; real-goroutine runs under the race detector; serial-order oracle",
   text="Part A: SpinLock alone under generated and (for 2-thread / small boxes) all schedules - never a shared+exclusive or two exclusive holders, all entries released. Part B: 2-4 concurrent DoTx / locking SelectUtxos / PlayAndRepost requests chosen to conflict on a real node, interleaved at the lock protocol's yield points by the scheduler: no panic or deadlock, the admitted set applies in some one-at-a-time order, model comparison of every observable (with a serial-replica fallback), selectors never share an output, leaked locks detected by resubmission, memory = disk after reopen. Part C: the same scenarios with real goroutines under -race.",
   note="Granularity is the yield points (hooks 77c70ae, 47005d3, 3fd21d2: lock protocol steps, two points inside PlayAndRepost, lock probes), below that only the race detector; liveness is 'no generated schedule reaches a state where every thread waits'; play requests only for window 0."),
 "C13": dict(level="exploration", technique=T_MODEL + "; blocks produced by the real Miner.packBlock; graph-path oracle over the pool's dependency graph (all map orders); replica differential",
   text="Pools rich in dependency chains, read-only sharers followed by a writer, fee payers and timer tasks; every block produced by the real packBlock must verify, carry the right award, be executable in exactly its order on the parent state and replay on a replica to the producer's state. For all map-iteration orders the pool's dependency graph must contain a path for every pair the model orders; TopSortDFS is checked on generated graphs.",
   note="As C01; the award of produced blocks is never spent (GenerateAwardTx uses the wall clock); one known finding (timer transaction computed over pending state) excluded by shape."),
 "C14": dict(level="exploration", technique="exhaustive enumeration of signature-entry multisets for small validator sets + rapid generation above, against a counting oracle (necessary direction)",
   text="All multisets of certificate entries (valid member, repeat, second signature of a member, non-member, wrong id, corrupted, foreign key, collector's own) up to n+1 entries for n <= 7 (thorough <= 10) through CheckProposal, the real handleReceivedProposal / handleReceivedVoteMsg, tdpos / xpoa CheckMinerMatch, CheckVote and CalVotesThreshold: accepted implies enough distinct valid member signatures besides the collector.",
   note="Only the necessary direction is asserted (vacuity guard counts accepted certificates); validator sets from contract snapshots are not exercised; one known finding (collector's own signature counted) excluded by shape."),
 "C15": dict(level="exploration", technique="exhaustive enumeration of arrival orders for small proposal trees + rapid stateful testing against a set-of-nodes model",
   text="QCPendingTree driven synchronously with the call shapes of its real callers: all arrival orders of every tree of <= 5-6 proposals (enumerated), random orders with votes, justifies, duplicates and rollbacks up to 12 proposals; after every step tree shape, exactly-once storage, marker ancestry, HighQC monotonicity and root movement are checked against a model.",
   note="Drives the tree through verif-tagged wrappers, not through Smr with signatures; markers at or below the committed height are not compared; one known finding excluded by shape."),
 "C16": dict(level="exploration", technique="exhaustive enumeration of schedule boxes at every millisecond with structural (order / contiguity / count) oracles; rapid generation of candidate blocks and compact encodings against independent big-int references",
   text="Every configuration of a small schedule box is scanned at every millisecond of several terms against structural predicates written from the statement (not the formula); CheckMinerMatch of tdpos / xpoa / single / pow is fed candidates on both sides of every boundary; compact encodings and IsProofed are compared with an independent big-int implementation.",
   note="BFT off, initial validator sets only; the PoW retarget rule is checked for uniqueness / restart-independence rather than against a transcription; period == 1 ms configurations of tdpos are a listed known finding."),
 "C17": dict(level="exploration", technique=T_MODEL + "; windows {0,1,2,3,5}, prune walks",
   text="The C01 machine with slide windows and walks that try to cross the irreversible height; after every step height and window are compared with the model, refused walks must leave the state on the chain containing the irreversible block, values must survive reopen.",
   note="As C01."),
 "C18": dict(level="exploration", technique=T_MODEL + "; snapshot reads at every ancestor block compared with per-block model states",
   text="The C01 machine biased to key histories; after every step, for every ancestor block B of the state pointer (pointer on the main chain) and every key, CreateSnapshot(B).Get / CreateXMSnapshotReader(B).Get must equal the model state at B, and the tip snapshot must hide pending writes.",
   note="As C01; restricted to main-chain B as the statement is."),
 "C20": dict(level="exploration", technique="exhaustive single-bit / burst corruption sweeps + rapid round-trip; model-based dispatcher programs; real-goroutine programs under the race detector with an interval (linearisability-window) oracle",
   text="Round-trip of every message type / option combination / payload class incl. a real wire hop; every single-bit flip for payloads <= 2 KiB and sampled bursts <= 32 bits must be detected; sequential dispatcher programs against a multiset model; concurrent Register/UnRegister/Dispatch programs from 2-6 goroutines built with -race, every delivery explained by a registration live during the dispatch.",
   note="De-duplication window expiry is not asserted (wall clock); interleavings inside Dispatch are sampled by the Go scheduler, the race detector's silence is not a proof."),
 "C19": dict(level="exploration", technique="stateful property testing (rapid) of contract-call sequences against a ledger model written from the statement",
   text="Generated sequences of Init / Transfer (to others, to self, to fresh accounts, all amount classes) / Propose / Vote / Thaw / timer ticks / direct Lock-UnLock attempts executed on the real kernel contracts through the real contract manager; after every step supply conservation, lock discipline and the transfer guard are checked.",
   note="Executes over an in-memory backing state (MemXModel) committing each successful write set; the real TDPoS nominate/vote methods cannot run there, a forwarder kernel contract issues the same Lock/UnLock calls for the second lock type."),
}

def main():
    props = [json.loads(l) for l in open('/verif/properties.jsonl')]
    hooks = subprocess.check_output(['git', '-C', '/repo', 'log', '--format=%h %s']).decode().splitlines()
    hook_commits = [l.split()[0] for l in hooks if l.split(' ', 1)[1].startswith('verif hook')]
    checks = []
    for p in props:
        i = p['id']
        if i not in CLAIMS:
            continue
        c = CLAIMS[i]
        checks.append({"property_id": i, "quick_cmd": "./check %s --tier quick" % i,
                       "thorough_cmd": "./check %s --tier thorough" % i,
                       "evidence_file": "/verif/evidence/%s.json" % i,
                       "replay_cmd_template": "./check %s --replay {path}" % i, "engine": "harness",
                       "level_claimed": {"category": c["level"], "text": c["text"], "design_ref": "DESIGN.md section 4, " + i},
                       "level_note": c["note"], "technique": c["technique"]})
    na = [{"property_id": p['id'], "reason": "check not built yet in this session (work in progress; DESIGN.md has the plan)"}
          for p in props if p['id'] not in CLAIMS]
    m = {"version": 1, "setup_cmd": "./setup.sh",
         "hooks": {"guard": "verif (Go build tag)",
                   "enable": "go test -c -tags verif (done by ./check on every run, from /repo's working tree)",
                   "baseline_off_cmd": "cd /repo && go test -mod=mod -json -vet=off -count=1 -timeout 25m ./...",
                   "source_commits": hook_commits, "add_only": True},
         "engines": [{"name": "harness", "path": "/verif/harness", "serves_properties": sorted(CLAIMS),
                      "kind_free_text": "Go module (rapid v1.3.0) with replace => /repo; in-memory kvdb engine with write log / fault injection; reference models; driver ./check"}],
         "checks": checks, "not_applicable": na,
         "notes": "Driver: ./check Cxx --tier quick|thorough | --replay file. Exit 0 held / 1 VIOLATION / 2 inconclusive. known_findings.json lists genuine defects (known / fixed); fixes are the 'fix:' commits of /repo."}
    json.dump(m, open('/verif/MANIFEST.json', 'w'), indent=1)
    print("claimed:", sorted(CLAIMS), "hooks:", hook_commits)

main()
