#!/bin/bash
# Run harness tests against a scratch copy of /repo (HEAD) with commits reverted and/or patches
# applied, without touching /repo's working tree.  Everything lives under /tmp/vs-<name> and is
# removed afterwards.
#   tools/scratch.sh <name> [-r <commit>]... [-p <patch>]... -- <go test args (package ./props implied)>
set -u
name=$1; shift
reverts=(); patches=()
while [ $# -gt 0 ]; do
  case "$1" in
    -r) reverts+=("$2"); shift 2;;
    -p) patches+=("$(readlink -f "$2")"); shift 2;;
    --) shift; break;;
    *) echo "bad arg $1"; exit 2;;
  esac
done
base=/tmp/vs-$name
wt=$base/wt
cleanup() { git -C /repo worktree remove --force "$wt" >/dev/null 2>&1; rm -rf "$base"; }
cleanup
mkdir -p "$base"
git -C /repo worktree add --detach "$wt" HEAD >/dev/null 2>&1 || { echo "worktree failed"; exit 2; }
# untracked verif-tagged hook files of the working tree (not yet committed) are copied too
(cd /repo && git ls-files --others --exclude-standard | grep 'export_verif.go$' | while read f; do mkdir -p "$wt/$(dirname $f)"; cp "$f" "$wt/$f"; done)
for c in "${reverts[@]:-}"; do
  [ -z "$c" ] && continue
  git -C "$wt" revert --no-commit "$c" >/dev/null 2>&1 || { echo "revert $c failed"; cleanup; exit 2; }
done
for p in "${patches[@]:-}"; do
  [ -z "$p" ] && continue
  git -C "$wt" apply "$p" || { echo "patch $p failed"; cleanup; exit 2; }
done
mkdir -p "$base/harness"
cp -r /verif/harness/hx /verif/harness/props /verif/harness/go.mod /verif/harness/go.sum.extra "$base/harness/"
sed -i "s#github.com/xuperchain/xupercore => /repo#github.com/xuperchain/xupercore => $wt#" "$base/harness/go.mod"
cp "$wt/go.sum" "$base/harness/go.sum"; cat "$base/harness/go.sum.extra" >> "$base/harness/go.sum"
export GOFLAGS=-mod=mod GOPROXY=off GOSUMDB=off GOTOOLCHAIN=local VERIF_ROOT=/verif VERIF_OUT=$base/out
cd "$base/harness" && go test -tags verif -vet=off -count=1 "$@" ./props
rc=$?
if [ -d "$base/out" ]; then ls "$base/out" | grep '^replay-' | head -5; fi
cd /; cleanup
exit $rc
